package main

import (
	"encoding/json"
	"flag"
	"fmt"
	"os"
	"path/filepath"
	"regexp"
	"runtime"
	"sort"
	"strconv"
	"strings"
	"time"

	"gosym/smt"
	"gosym/sym"

	"golang.org/x/tools/go/ssa"
)

type KnownFinding struct {
	Property string `json:"property"`
	ID       string `json:"id"`
	What     string `json:"what"`
	Witness  string `json:"witness,omitempty"`
}

type KnownFile struct {
	Known []KnownFinding `json:"known"`
	Fixed []string       `json:"fixed"`
	Observed []map[string]string `json:"observed_not_decided,omitempty"`
}

func loadKnown() KnownFile {
	var k KnownFile
	bs, err := os.ReadFile(filepath.Join(verifDir, "known_findings.json"))
	if err == nil {
		json.Unmarshal(bs, &k)
	}
	return k
}

// Prop describes how one property is checked.
type Prop struct {
	ID    string
	Level string
	// Build prepares corpus packages + harness files in the scratch module (and/or
	// harness files in the scratch repo copy) and returns engine run specs.
	Build func(c *Ctx) ([]RunSpec, error)
	Assumptions []string
	Rule  string
	Explanation string
}

// RunSpec is one engine invocation (one packages.Load).
type RunSpec struct {
	Dir      string   // module dir
	Patterns []string // package patterns
	Prefix   string   // harness name prefix
	Targets  []string // extra target package paths
	TargetPrefixes []string
	ArbWide  bool
	Stubs    []string
	MapRangeCoverage bool // C12: every reachable map-range site must lie in an executed function
	LoadOnly bool // only type-check the packages and report what does not load (observation, not a verdict)
	Permute  bool
	WriteMon bool
	SharedExplicit bool
	ArbNarrow bool
	Unwind   int
	ReplayPkgDir func(harness string) string // directory of the package holding a harness
	Transparent []string
}

var props = map[string]*Prop{}

func register(p *Prop) { props[p.ID] = p }

type Outcome struct {
	Violations []string
	Known      []string
	Inconclusive []string
}

func cmdCheck(args []string) int {
	fs := flag.NewFlagSet("check", flag.ExitOnError)
	tier := fs.String("tier", "", "quick|thorough")
	replay := fs.String("replay", "", "replay a recorded counterexample file")
	only := fs.String("only", "", "restrict corpus packages (substring)")
	fs.Parse(args[1:])
	id := args[0]
	p := props[id]
	if p == nil {
		fmt.Fprintln(os.Stderr, "unknown property", id)
		return 2
	}
	if *tier == "" {
		*tier = os.Getenv("VERIF_TIER")
	}
	if *tier != "thorough" {
		*tier = "quick"
	}
	seed := int64(1)
	if s := os.Getenv("VERIF_SEED"); s != "" {
		if v, err := strconv.ParseInt(s, 10, 64); err == nil {
			seed = v
		}
	}
	os.Setenv("VERIF_ONLY", *only)
	if *replay != "" {
		return replayFile(p, *replay, *tier, seed)
	}
	return runCheck(p, *tier, seed)
}

type sampleT = map[string]interface{}

func runCheck(p *Prop, tier string, seed int64) int {
	t0 := time.Now()
	c, err := NewCtx(p.ID, tier, seed)
	if c != nil {
		defer c.Cleanup()
	}
	if err != nil {
		fmt.Println("INCONCLUSIVE property="+p.ID, "reason=scratch:", err)
		return 2
	}
	specs, err := p.Build(c)
	if err != nil {
		fmt.Println("INCONCLUSIVE property="+p.ID, "reason=build:", err)
		return 2
	}
	known := loadKnown()
	knownIDs := map[string]KnownFinding{}
	for _, k := range known.Known {
		if k.Property == p.ID {
			knownIDs[k.ID] = k
		}
	}

	agg := struct {
		Paths, Steps, Asserts, Proved, Unknown int
		Outcomes                               map[string]int
		Fns, Stubs, Unsupp                     map[string]int
		Solver                                 sym.SolverStats
		Harnesses                              int
		Nontrivial                             int
		LoadErrors                             []string
		Reached                                map[string]int
	}{Outcomes: map[string]int{}, Fns: map[string]int{}, Stubs: map[string]int{}, Unsupp: map[string]int{}, Reached: map[string]int{}}

	var allFindings []sym.Finding
	var mapSites []mapSite
	observed := 0
	var observedFails []string
	type witnessT struct {
		Harness, Dir string
		W            *sym.Witness
	}
	var witnesses []witnessT
	var structural []string
	findingDir := map[string]string{}
	var samples []sampleT
	inconclusive := []string{}
	for _, rs := range specs {
		prog, spkgs, pkgs, errs, err := loadProgram(rs.Dir, rs.Patterns, "verif")
		if err != nil {
			inconclusive = append(inconclusive, "load: "+err.Error())
			continue
		}
		if rs.LoadOnly {
			// a package goag reported success for and that does not type-check is a
			// concrete counterexample (observed natively, not a solver verdict)
			for _, le := range errs {
				observedFails = append(observedFails, le)
			}
			observed += len(pkgs)
			continue
		}
		agg.LoadErrors = append(agg.LoadErrors, errs...)
		cfg := sym.DefaultConfig()
		cfg.Workers = runtime.NumCPU()
		cfg.PermuteMaps = rs.Permute
		cfg.WriteMonitor = rs.WriteMon
		cfg.SharedExplicit = rs.SharedExplicit
		cfg.ArbWide = rs.ArbWide
		cfg.ArbNarrow = rs.ArbNarrow
		cfg.Witnesses = true
		if rs.Dir == c.Mod {
			// per-harness budget for the corpus of generated packages only; harnesses over
			// goag's own packages are single large explorations by design
			cfg.MaxPathsPerHarness = 40000
			if tier == "thorough" {
				cfg.MaxPathsPerHarness = 120000
			}
		}
		if rs.Unwind > 0 {
			cfg.Unwind = rs.Unwind
		}
		if tier == "thorough" {
			cfg.TimeoutMs = 120000
			cfg.MaxPaths = 6000000 // safety net only: the thorough corpora are 5-10x the quick ones
		}
		e := sym.NewEngine(prog, cfg)
		for _, pk := range pkgs {
			e.TargetPaths[pk.PkgPath] = true
		}
		for _, t := range rs.Targets {
			e.TargetPaths[t] = true
		}
		e.TargetPrefixes = rs.TargetPrefixes
		for _, st := range rs.Stubs {
			e.EnableStubs(st)
		}
		for _, t := range rs.Transparent {
			e.Transparent[t] = true
		}
		var tasks []sym.Task
		for _, sp := range spkgs {
			if sp == nil {
				continue
			}
			var names []string
			for name, m := range sp.Members {
				if f, ok := m.(*ssa.Function); ok && strings.HasPrefix(name, rs.Prefix) && len(f.Params) == 0 {
					names = append(names, name)
				}
			}
			sort.Strings(names)
			if len(names) > 0 {
				e.InitPkgs = append(e.InitPkgs, sp)
			}
			for _, n := range names {
				h := sp.Pkg.Path() + "." + n
				tasks = append(tasks, sym.Task{Harness: h, Fn: sp.Func(n)})
				if rs.ReplayPkgDir != nil {
					findingDir[h] = rs.ReplayPkgDir(h)
				}
			}
		}
		st := sym.NewStats()
		res, ss := e.Explore(tasks, st)
		if rs.MapRangeCoverage {
			mapSites = append(mapSites, mapRangeSites(prog, st.Fns)...)
		}
		agg.Solver.Queries += ss.Queries
		agg.Solver.Sat += ss.Sat
		agg.Solver.Unsat += ss.Unsat
		agg.Solver.Unknown += ss.Unknown
		agg.Solver.Time += ss.Time
		agg.Solver.Errors = append(agg.Solver.Errors, ss.Errors...)
		for k, v := range st.Fns {
			agg.Fns[k] = v
		}
		for k, v := range st.Stubs {
			agg.Stubs[k] += v
		}
		var hn []string
		for n := range res {
			hn = append(hn, n)
		}
		sort.Strings(hn)
		for _, n := range hn {
			r := res[n]
			agg.Harnesses++
			agg.Paths += r.Paths
			agg.Steps += r.Steps
			agg.Asserts += r.Asserts
			agg.Proved += r.Proved
			agg.Unknown += r.Unknown
			for k, v := range r.Outcomes {
				agg.Outcomes[k] += v
			}
			for k, v := range r.Reached {
				agg.Reached[k] += v
			}
			if r.Witness != nil && !rs.WriteMon {
				witnesses = append(witnesses, witnessT{Harness: n, Dir: findingDir[n], W: r.Witness})
			}
			for _, w := range r.AllWitnesses {
				witnesses = append(witnesses, witnessT{Harness: n, Dir: findingDir[n], W: w})
			}
			for k, v := range r.Unsupp {
				agg.Unsupp[k] += v
				inconclusive = append(inconclusive, fmt.Sprintf("%s: %s (x%d)", n, k, v))
			}
			if r.Unknown > 0 {
				inconclusive = append(inconclusive, fmt.Sprintf("%s: %d solver answers unknown/timeout", n, r.Unknown))
			}
			if r.Truncated && isFamilyHarness(n) {
				// a package of the seeded corpus families whose harness outgrows the per-harness
				// budget is left out of this run's claim (as if the family had not drawn it)
				c.Info = append(c.Info, fmt.Sprintf("%s: per-harness path budget (%d) exceeded after %d paths: the rest of this harness is NOT explored and the package is outside this run's claim", n, cfg.MaxPathsPerHarness, r.Paths))
			} else if r.Truncated {
				inconclusive = append(inconclusive, n+": path budget exceeded")
			}
			if r.Asserts > 0 && r.Outcomes["done"] > 0 {
				agg.Nontrivial++
			}
			allFindings = append(allFindings, r.Findings...)
			var miss []string
			for lab := range r.Required {
				if r.Reached[lab] == 0 {
					miss = append(miss, lab)
				}
			}
			sort.Strings(miss)
			if len(miss) > 0 && len(r.Unsupp) == 0 && !r.Truncated {
				structural = append(structural, fmt.Sprintf("%s: no explored path reaches %s", n, strings.Join(miss, ", ")))
			}
			if len(samples) < 6 && r.Paths > 0 {
				samples = append(samples, sampleT{"harness": n, "paths": r.Paths, "outcomes": r.Outcomes, "assertions_reached": r.Asserts, "assertions_decided_unsat": r.Proved, "findings": len(r.Findings)})
			}
		}
		if len(ss.Errors) > 0 {
			inconclusive = append(inconclusive, "solver errors: "+strings.Join(ss.Errors[:1], ";"))
		}
	}
	if len(mapSites) > 0 {
		covered := map[string]bool{}
		reachable := map[string]bool{}
		fnOf := map[string]string{}
		for _, ms := range mapSites {
			if ms.Covered {
				covered[ms.Pos] = true
			}
			if ms.Reachable {
				reachable[ms.Pos] = true
			}
			fnOf[ms.Pos] = ms.Fn
		}
		var poss []string
		for pos := range fnOf {
			poss = append(poss, pos)
		}
		sort.Strings(poss)
		for _, pos := range poss {
			if reachable[pos] && !covered[pos] {
				inconclusive = append(inconclusive, "uncovered map-range site (reachable from Generate, no harness executes its function): "+pos+" in "+fnOf[pos])
			}
		}
	}
	for _, le := range agg.LoadErrors {
		inconclusive = append(inconclusive, "package does not load: "+le)
	}
	for _, n := range c.Notes {
		inconclusive = append(inconclusive, n)
	}

	// ---- classify + replay findings
	groups := map[string][]sym.Finding{}
	var gkeys []string
	for _, f := range allFindings {
		k := f.Harness + "|" + f.Kind + "|" + f.Msg + "|" + f.Known
		if _, ok := groups[k]; !ok {
			gkeys = append(gkeys, k)
		}
		groups[k] = append(groups[k], f)
	}
	sort.Strings(gkeys)
	os.MkdirAll(filepath.Join(verifDir, "replays"), 0o755)
	if old, _ := filepath.Glob(filepath.Join(verifDir, "replays", p.ID+"-*.json")); len(old) > 0 {
		for _, f := range old {
			os.Remove(f)
		}
	}
	replayed, confirmed := 0, 0
	var violations, knownSeen, unconfirmed []string
	knownPrinted := map[string]bool{}
	rp := newReplayer(c)
	nrep := 0
	for _, k := range gkeys {
		fsn := groups[k]
		f := fsn[0]
		isKnown := false
		if f.Known != "" {
			if _, ok := knownIDs[f.Known]; ok {
				isKnown = true
			}
		}
		if isKnown && knownPrinted[f.Known] {
			continue
		}
		// replay up to 2 members of the group until one confirms
		ok := false
		var rfile string
		for i := 0; i < len(fsn) && i < 2 && !ok; i++ {
			nrep++
			rfile = filepath.Join(verifDir, "replays", fmt.Sprintf("%s-%d.json", p.ID, nrep))
			doc := map[string]interface{}{"property": p.ID, "harness": fsn[i].Harness, "kind": fsn[i].Kind, "msg": fsn[i].Msg, "pos": fsn[i].Pos, "model": fsn[i].Model, "known": fsn[i].Known}
			bs, _ := json.MarshalIndent(doc, "", " ")
			os.WriteFile(rfile, bs, 0o644)
			replayed++
			var why string
			ok, why = rp.Replay(findingDir[fsn[i].Harness], fsn[i])
			if !ok {
				unconfirmed = append(unconfirmed, fmt.Sprintf("%s: %s [%s] (%s)", fsn[i].Harness, fsn[i].Msg, fsn[i].Pos, why))
				os.Remove(rfile)
			}
		}
		if !ok {
			continue
		}
		confirmed++
		if isKnown {
			knownPrinted[f.Known] = true
			knownSeen = append(knownSeen, f.Known)
			fmt.Printf("KNOWN-FINDING: property=%s %s: %s\n", p.ID, f.Known, knownIDs[f.Known].What)
			os.Remove(rfile)
			continue
		}
		violations = append(violations, fmt.Sprintf("%s: %s [%s]", f.Harness, f.Msg, f.Pos))
		fmt.Printf("VIOLATION property=%s replay=%s\n", p.ID, rfile)
		fmt.Printf("  harness=%s kind=%s msg=%q pos=%s\n", f.Harness, f.Kind, f.Msg, f.Pos)
		if len(samples) < 12 {
			samples = append(samples, sampleT{"violation": f.Msg, "harness": f.Harness, "model": f.Model})
		}
	}
	// existence obligations (vrt.MustReach) that no path satisfied
	for i, sv := range structural {
		rfile := filepath.Join(verifDir, "replays", fmt.Sprintf("%s-unreached-%d.json", p.ID, i+1))
		bs, _ := json.MarshalIndent(map[string]interface{}{"property": p.ID, "kind": "unreached", "msg": sv}, "", " ")
		os.WriteFile(rfile, bs, 0o644)
		violations = append(violations, sv)
		fmt.Printf("VIOLATION property=%s replay=%s\n  %s\n", p.ID, rfile, sv)
	}
	// observation stage: corpus packages that do not compile, one violation per package
	{
		byPkg := map[string][]string{}
		var order []string
		for _, le := range observedFails {
			name := ""
			if i := strings.Index(le, "vscratch/pkgs/"); i >= 0 {
				rest := le[i+len("vscratch/pkgs/"):]
				if j := strings.IndexAny(rest, ": /"); j >= 0 {
					name = rest[:j]
				}
			}
			if _, ok := byPkg[name]; !ok {
				order = append(order, name)
			}
			byPkg[name] = append(byPkg[name], le)
		}
		for i, name := range order {
			var u *PkgUnit
			for _, x := range c.Pkgs {
				if x.Name == name {
					u = x
				}
			}
			doc := map[string]interface{}{"property": p.ID, "kind": "does-not-compile", "package": name, "errors": byPkg[name]}
			if u != nil {
				spec, _ := os.ReadFile(filepath.Join(u.Dir, "openapi.yaml"))
				doc["spec"] = string(spec)
				doc["cfg"] = u.Cfg
				doc["flags"] = u.Flags
			}
			rfile := filepath.Join(verifDir, "replays", fmt.Sprintf("%s-compile-%d.json", p.ID, i+1))
			bs, _ := json.MarshalIndent(doc, "", " ")
			os.WriteFile(rfile, bs, 0o644)
			sv := fmt.Sprintf("goag reported success for corpus spec %s but the generated package does not compile: %s", name, firstLine(byPkg[name][0]))
			violations = append(violations, sv)
			if i < 8 {
				fmt.Printf("VIOLATION property=%s replay=%s\n  %s (observed by type-checking the generated package; not a solver verdict)\n", p.ID, rfile, sv)
			}
		}
	}
	// conformance: the inputs of completed symbolic paths are run through the native build
	// (a few packages per run); the native run must not fail an assertion the engine decided
	var witnessNotes []string
	{
		dirs := map[string]int{}
		for _, w := range witnesses {
			if w.Dir == "" {
				continue
			}
			if _, ok := dirs[w.Dir]; !ok && len(dirs) >= 6 {
				continue
			}
			if dirs[w.Dir] >= 3 && os.Getenv("GOSYM_WITNESS_ALL") == "" {
				continue
			}
			dirs[w.Dir]++
			ok, serious, why := rp.ReplayWitness(w.Dir, w.Harness, w.W)
			switch {
			case ok:
			case serious:
				wf := filepath.Join(verifDir, "replays", fmt.Sprintf("%s-witness-%d.json", p.ID, len(inconclusive)+1))
				wbs, _ := json.MarshalIndent(map[string]interface{}{"property": p.ID, "harness": w.Harness, "kind": "assert", "msg": "conformance witness", "model": w.W.Model}, "", " ")
				os.WriteFile(wf, wbs, 0o644)
				inconclusive = append(inconclusive, "conformance: the native build disagrees with the engine on a completed path of "+w.Harness+" (inputs: "+wf+"): "+why)
			default:
				witnessNotes = append(witnessNotes, w.Harness+": "+why)
			}
		}
	}
	wit := rp.Witnesses()
	rp.Close()
	for _, u := range unconfirmed {
		inconclusive = append(inconclusive, "UNCONFIRMED model (did not reproduce natively): "+u)
	}

	// ---- evidence
	fnNames := make([]string, 0, len(agg.Fns))
	instr := 0
	for k, v := range agg.Fns {
		fnNames = append(fnNames, k)
		instr += v
	}
	sort.Strings(fnNames)
	stubNames := make([]string, 0, len(agg.Stubs))
	for k := range agg.Stubs {
		stubNames = append(stubNames, k)
	}
	sort.Strings(stubNames)
	var pkgNames, rejected []string
	fam := map[string]int{}
	for _, u := range c.Pkgs {
		if u.GenErr != "" {
			rejected = append(rejected, u.Name+": "+firstLine(u.GenErr))
			continue
		}
		pkgNames = append(pkgNames, u.Name)
		fam[u.Family]++
	}
	if len(fnNames) > 400 {
		fnNames = append(fnNames[:400], fmt.Sprintf("... and %d more", len(fnNames)-400))
	}
	cov := map[string]interface{}{
		"states":                        agg.Paths,
		"transitions":                   agg.Steps,
		"traces_validated_against_impl": confirmed + wit,
		"samples":                       samples,
		"evaluations":                   agg.Solver.Queries,
		"distinct_nontrivial":           agg.Nontrivial,
		"rule":                          p.Rule,
		"explanation":                   p.Explanation,
		"harnesses":                     agg.Harnesses,
		"assertions_reached":            agg.Asserts,
		"assertions_decided":            agg.Proved,
		"path_outcomes":                 agg.Outcomes,
		"functions_encoded":             fnNames,
		"functions_encoded_count":       len(agg.Fns),
		"ssa_instructions_encoded":      instr,
		"stubs_used":                    agg.Stubs,
		"queries":                       map[string]int{"total": agg.Solver.Queries, "sat": agg.Solver.Sat, "unsat": agg.Solver.Unsat, "unknown": agg.Solver.Unknown},
		"solver":                        map[string]interface{}{"argv": smt.SolverArgv(), "time_s": round2(agg.Solver.Time.Seconds()), "timeout_ms_per_query": map[string]int{"quick": 20000, "thorough": 120000}[tier]},
		"bounds":                        boundsFor(p.ID, tier),
		"corpus_packages":               len(pkgNames),
		"corpus_families":               fam,
		"corpus_rejected_by_generator":  rejected,
		"reach_labels":                  agg.Reached,
		"corpus_packages_type_checked":  observed,
		"map_range_sites":               mapSites,
		"replays_attempted":             replayed,
		"replays_confirmed":             confirmed,
		"reach_witnesses_replayed":      wit,
		"witnesses_not_reproduced":      witnessNotes,
		"known_findings_seen":           knownSeen,
		"inconclusive":                  inconclusive,
		"outside_this_run":              c.Info,
		"violations_detail":             violations,
	}
	if len(samples) == 0 {
		cov["samples"] = []sampleT{{"note": "no harness executed"}}
	}
	ev := map[string]interface{}{
		"property_id": p.ID, "tier": tier, "seed": seed, "level": p.Level,
		"coverage": cov, "assumptions": p.Assumptions, "wall_s": round2(time.Since(t0).Seconds()), "violations": len(violations),
	}
	os.MkdirAll(filepath.Join(verifDir, "evidence"), 0o755)
	bs, _ := json.MarshalIndent(ev, "", " ")
	os.WriteFile(filepath.Join(verifDir, "evidence", p.ID+".json"), bs, 0o644)

	fmt.Printf("%s %s: %d harnesses, %d paths, %d assertions reached / %d decided, %d queries (%d unknown), %d findings (%d replayed, %d confirmed), %.1fs\n",
		p.ID, tier, agg.Harnesses, agg.Paths, agg.Asserts, agg.Proved, agg.Solver.Queries, agg.Solver.Unknown, len(allFindings), replayed, confirmed, time.Since(t0).Seconds())
	if len(violations) > 0 {
		return 1
	}
	if len(inconclusive) > 0 {
		seen := map[string]bool{}
		n := 0
		for _, s := range inconclusive {
			if !seen[s] && n < 20 {
				fmt.Printf("INCONCLUSIVE property=%s reason=%s\n", p.ID, s)
				n++
			}
			seen[s] = true
		}
		return 2
	}
	if agg.Harnesses == 0 || agg.Asserts == 0 {
		fmt.Printf("INCONCLUSIVE property=%s reason=no assertion was reached\n", p.ID)
		return 2
	}
	return 0
}

func firstLine(s string) string {
	if i := strings.IndexByte(s, '\n'); i >= 0 {
		s = s[:i]
	}
	if len(s) > 200 {
		s = s[:200]
	}
	return s
}

func round2(f float64) float64 { return float64(int(f*100)) / 100 }

var reNonAlnum = regexp.MustCompile(`[^A-Za-z0-9]+`)

func replayFile(p *Prop, file, tier string, seed int64) int {
	bs, err := os.ReadFile(file)
	if err != nil {
		fmt.Println(err)
		return 2
	}
	var doc struct {
		Harness string                 `json:"harness"`
		Kind    string                 `json:"kind"`
		Msg     string                 `json:"msg"`
		Pos     string                 `json:"pos"`
		Model   map[string]interface{} `json:"model"`
	}
	if err := json.Unmarshal(bs, &doc); err != nil {
		fmt.Println(err)
		return 2
	}
	c, err := NewCtx(p.ID, tier, seed)
	if c != nil {
		defer c.Cleanup()
	}
	if err != nil {
		fmt.Println(err)
		return 2
	}
	if doc.Kind == "does-not-compile" {
		var od struct {
			Spec  string   `json:"spec"`
			Cfg   string   `json:"cfg"`
			Flags GenFlags `json:"flags"`
		}
		json.Unmarshal(bs, &od)
		if err := prepare(c); err != nil {
			fmt.Println(err)
			return 2
		}
		u := c.GenPackage("replay", "X", []byte(od.Spec), od.Cfg, od.Flags)
		if u.GenErr != "" {
			fmt.Printf("replay did not reproduce: the generator now rejects the spec: %s\n", firstLine(u.GenErr))
			return 0
		}
		out, berr := runCmd(c.Mod, goEnv(), "go", "build", "./pkgs/replay")
		if berr != nil {
			fmt.Printf("VIOLATION property=%s replay=%s\n  reproduced natively: the generated package does not compile: %s\n", p.ID, file, firstLine(strings.TrimSpace(strings.TrimPrefix(out, "# vscratch/pkgs/replay\n"))))
			return 1
		}
		fmt.Println("replay did not reproduce: the generated package compiles")
		return 0
	}
	// restrict the corpus to the package of the harness
	parts := strings.Split(doc.Harness, "/")
	last := parts[len(parts)-1]
	if i := strings.Index(last, "."); i >= 0 {
		os.Setenv("VERIF_ONLY", "="+last[:i])
	}
	specs, err := p.Build(c)
	if err != nil {
		fmt.Println("build:", err)
		return 2
	}
	dir := ""
	for _, rs := range specs {
		if rs.ReplayPkgDir != nil {
			if d := rs.ReplayPkgDir(doc.Harness); d != "" {
				dir = d
			}
		}
	}
	rp := newReplayer(c)
	defer rp.Close()
	ok, why := rp.Replay(dir, sym.Finding{Harness: doc.Harness, Kind: doc.Kind, Msg: doc.Msg, Pos: doc.Pos, Model: doc.Model})
	if ok {
		fmt.Printf("VIOLATION property=%s replay=%s\n  reproduced natively: %s\n", p.ID, file, why)
		return 1
	}
	fmt.Printf("replay did not reproduce: %s\n", why)
	return 0
}

// isFamilyHarness: the harness belongs to a package of the seeded corpus
// families (s_, r_, a_, p_, b_ and pairs built from them), not to a fixture or
// to goag's own packages.
func isFamilyHarness(h string) bool {
	for _, pre := range []string{"/pkgs/s_", "/pkgs/r_", "/pkgs/a_", "/pkgs/p_", "/pkgs/b_", "/pairs/s_", "/pairs/p_", "/pairs/b_"} {
		if strings.Contains(h, pre) {
			return true
		}
	}
	return false
}
