package main

import (
	"fmt"
	"strings"
)

// Parameter family P (DESIGN 3.2): type kind x {query scalar, query array,
// header} x required/optional x {inline, schema $ref, component-parameter $ref}
// x {operation level, path-item level, path-item overridden by operation}.

type pKind struct {
	Name   string
	Schema string // inline schema body
}

var pKinds = []pKind{
	{"str", "type: string"},
	{"int", "type: integer"},
	{"i32", "type: integer\nformat: int32"},
	{"i64", "type: integer\nformat: int64"},
	{"num", "type: number"},
	{"f32", "type: number\nformat: float"},
	{"bool", "type: boolean"},
	{"time", "type: string\nformat: date-time"},
}

type pParam struct {
	Name     string
	In       string // query|header
	Array    bool
	Required bool
	Kind     pKind
	Decl     int // 0 inline, 1 schema $ref, 2 component-parameter $ref
	Level    int // 0 operation, 1 path item, 2 path item overridden by operation
}

func (p pParam) schemaYAML(ind int) string {
	body := p.Kind.Schema
	if p.Decl == 1 {
		body = "$ref: '#/components/schemas/S_" + p.Kind.Name + "'"
	}
	if p.Array {
		return indent("type: array\nitems:\n"+indent(body, 2), ind)
	}
	return indent(body, ind)
}

func (p pParam) yaml(ind int, required bool, kind pKind) string {
	q := p
	q.Required = required
	q.Kind = kind
	s := fmt.Sprintf("- name: %s\n  in: %s\n", q.Name, q.In)
	if q.Required {
		s += "  required: true\n"
	}
	s += "  schema:\n" + q.schemaYAML(4)
	return indent(s, ind)
}

func genParamFamily(c *Ctx, filter func(string) bool) {
	n := 12
	if c.Tier == "thorough" {
		n = 36
	}
	cell := 0
	for i := 0; i < n; i++ {
		name := fmt.Sprintf("p_%03d", i)
		var sb strings.Builder
		sb.WriteString("openapi: 3.0.3\ninfo:\n  title: parameter family\n  version: 0.0.1\npaths:\n")
		comps := map[string]string{}
		for pth := 0; pth < 2; pth++ {
			fmt.Fprintf(&sb, "  /p%d/{id}:\n", pth)
			var itemParams, itemLevel []pParam
			type opT struct {
				method string
				params []pParam
			}
			var ops []opT
			for oi, m := range []string{"get", "post"} {
				op := opT{method: m}
				for k := 0; k < 4; k++ {
					cidx := cell
					cell++
					kind := pKinds[cidx%len(pKinds)]
					loc := (cidx / len(pKinds)) % 3
					pp := pParam{Kind: kind, Required: (cidx/24)%2 == 0, Decl: (cidx / 48) % 3, Level: (cidx/3 + k) % 3}
					switch loc {
					case 0:
						pp.In = "query"
					case 1:
						pp.In, pp.Array = "query", true
					case 2:
						pp.In = "header"
					}
					base := fmt.Sprintf("%s%d%d%d", kind.Name, pth, oi, k)
					if pp.In == "header" {
						pp.Name = "X-H-" + base
					} else {
						pp.Name = "q_" + base
					}
					if pp.Level > 0 && oi == 0 {
						itemLevel = append(itemLevel, pp)
					}
					if pp.Level == 0 || oi != 0 || pp.Level == 2 {
						op.params = append(op.params, pp)
					}
				}
				ops = append(ops, op)
			}
			itemParams = itemLevel
			// path-item level parameters (+ the path parameter)
			sb.WriteString("    parameters:\n      - name: id\n        in: path\n        required: true\n        schema:\n          type: integer\n          format: int64\n")
			for _, ip := range itemParams {
				req, kind := ip.Required, ip.Kind
				if ip.Level == 2 {
					// the operation re-declares it with the opposite requiredness and (for ints) another width
					req = !ip.Required
					if kind.Name == "i32" {
						kind = pKinds[3]
					}
				}
				if ip.Decl == 2 {
					cn := "P_" + strings.NewReplacer("-", "_").Replace(ip.Name) + "_item"
					comps[cn] = ip.yaml(0, req, kind)
					fmt.Fprintf(&sb, "      - $ref: '#/components/parameters/%s'\n", cn)
				} else {
					sb.WriteString(ip.yaml(6, req, kind))
				}
			}
			for _, op := range ops {
				fmt.Fprintf(&sb, "    %s:\n", op.method)
				if len(op.params) > 0 {
					sb.WriteString("      parameters:\n")
				}
				for _, pp := range op.params {
					if pp.Decl == 2 {
						cn := "P_" + strings.NewReplacer("-", "_").Replace(pp.Name)
						comps[cn] = pp.yaml(0, pp.Required, pp.Kind)
						fmt.Fprintf(&sb, "        - $ref: '#/components/parameters/%s'\n", cn)
					} else {
						sb.WriteString(pp.yaml(8, pp.Required, pp.Kind))
					}
				}
				sb.WriteString("      responses:\n        '200':\n          description: ok\n        default:\n          description: other\n")
			}
		}
		sb.WriteString("components:\n  schemas:\n")
		for _, k := range pKinds {
			fmt.Fprintf(&sb, "    S_%s:\n%s", k.Name, indent(k.Schema, 6))
		}
		if len(comps) > 0 {
			sb.WriteString("  parameters:\n")
			var names []string
			for cn := range comps {
				names = append(names, cn)
			}
			sortStrings(names)
			for _, cn := range names {
				body := strings.TrimPrefix(comps[cn], "- ")
				lines := strings.Split(strings.TrimRight(body, "\n"), "\n")
				for li := range lines {
					lines[li] = strings.TrimPrefix(lines[li], "  ")
				}
				fmt.Fprintf(&sb, "    %s:\n%s", cn, indent(strings.Join(lines, "\n"), 6))
			}
		}
		if filter != nil && !filter(name) {
			continue
		}
		c.GenPackage(name, "P", []byte(sb.String()), "", GenFlags{Client: i%2 == 0})
	}
}

func sortStrings(s []string) {
	for i := 1; i < len(s); i++ {
		for j := i; j > 0 && s[j] < s[j-1]; j-- {
			s[j], s[j-1] = s[j-1], s[j]
		}
	}
}
