package main

import (
	"fmt"
	"strings"
)

// Response family B (DESIGN 3.2): status sets x default x shared component
// responses (several operations / statuses, alias chains) x header kinds
// (required/optional, scalar/array) x body none/json/raw.

func genResponseFamily(c *Ctx, filter func(string) bool) {
	n := 10
	if c.Tier == "thorough" {
		n = 24
	}
	hdrKinds := []string{"type: string", "type: integer\nformat: int64", "type: boolean", "type: array\nitems:\n  type: integer", "type: array\nitems:\n  type: string", "type: number"}
	for i := 0; i < n; i++ {
		name := fmt.Sprintf("b_%03d", i)
		if filter != nil && !filter(name) {
			continue
		}
		var sb strings.Builder
		sb.WriteString("openapi: 3.0.3\ninfo:\n  title: response family\n  version: 0.0.1\npaths:\n")
		hdr := func(k int, ind int) string {
			s := fmt.Sprintf("x-h%c:\n", 'a'+k)
			if (i+k)%2 == 0 {
				s += "  required: true\n"
			}
			s += "  schema:\n" + indent(hdrKinds[(i+k)%len(hdrKinds)], 4)
			return indent(s, ind)
		}
		jsonBody := func(ref string, ind int) string {
			return indent("content:\n  application/json:\n    schema:\n      $ref: '#/components/schemas/"+ref+"'\n", ind)
		}
		inlineBody := indent("content:\n  application/json:\n    schema:\n      type: object\n      required:\n        - code\n      properties:\n        code:\n          type: integer\n          format: int32\n        note:\n          type: string\n", 10)
		rawBody := indent("content:\n  application/octet-stream:\n    schema:\n      type: string\n      format: binary\n", 10)
		// op 1: status set varies
		sb.WriteString("  /a:\n    get:\n      responses:\n")
		switch i % 5 {
		case 0:
			sb.WriteString("        '200':\n          description: ok\n" + jsonBody("Item", 10))
		case 1:
			sb.WriteString("        '200':\n          description: ok\n          headers:\n" + hdr(1, 12) + hdr(2, 12) + jsonBody("Item", 10) + "        '404':\n          description: missing\n")
		case 2:
			sb.WriteString("        default:\n          description: any\n" + inlineBody)
		case 3:
			sb.WriteString("        '201':\n          description: created\n          headers:\n" + hdr(3, 12) + "        default:\n          $ref: '#/components/responses/Problem'\n")
		case 4:
			sb.WriteString("        '200':\n          description: raw\n" + rawBody + "        '204':\n          description: nothing\n")
		}
		// op 2 + op 3: shared component responses / alias chains
		sb.WriteString("  /b:\n    post:\n      responses:\n        '200':\n          $ref: '#/components/responses/ItemOK'\n        '202':\n          $ref: '#/components/responses/Accepted'\n")
		if i%2 == 0 {
			sb.WriteString("        default:\n          $ref: '#/components/responses/Problem'\n")
		}
		// a shared component response reached through an alias chain, on a path with a camelCase variable
		sb.WriteString("  /c/{itemId}:\n    get:\n      parameters:\n        - name: itemId\n          in: path\n          required: true\n          schema:\n            type: string\n      responses:\n        '200':\n          $ref: '#/components/responses/ItemAlias2'\n        '410':\n          description: gone\n          headers:\n" + hdr(4, 12))
		if i%2 == 1 {
			// the same component response under a third and a fourth operation, statuses a-a-b-a in usage order
			sb.WriteString("  /d:\n    put:\n      responses:\n        '201':\n          $ref: '#/components/responses/ItemOK'\n")
			sb.WriteString("  /e:\n    get:\n      responses:\n        '200':\n          $ref: '#/components/responses/ItemOK'\n        '404':\n          $ref: '#/components/responses/Accepted'\n")
		}
		sb.WriteString("components:\n  schemas:\n    Item:\n      type: object\n      required:\n        - id\n      properties:\n        id:\n          type: integer\n          format: int64\n        label:\n          type: string\n          nullable: true\n    Err:\n      type: object\n      required:\n        - message\n      properties:\n        message:\n          type: string\n")
		sb.WriteString("  responses:\n    ItemOK:\n      description: item\n      headers:\n" + hdr(5, 8) + jsonBody("Item", 6))
		sb.WriteString("    ItemAlias:\n      $ref: '#/components/responses/ItemOK'\n    ItemAlias2:\n      $ref: '#/components/responses/ItemAlias'\n")
		sb.WriteString("    Problem:\n      description: problem\n" + jsonBody("Err", 6))
		sb.WriteString("    Accepted:\n      description: accepted\n      headers:\n" + hdr(6, 8))
		c.GenPackage(name, "B", []byte(sb.String()), "", GenFlags{Client: true})
	}
	// specs the generator has to REJECT: a shared component response used both as
	// `default` and as a numbered status (in either order). If one is accepted,
	// the harness shows the component written with the wrong status.
	for k, order := range [][2]string{{"accounts", "reports"}, {"reports", "accounts"}} {
		name := fmt.Sprintf("b_mixed_%d", k)
		if filter != nil && !filter(name) {
			continue
		}
		spec := "openapi: 3.0.3\ninfo:\n  title: mixed default/numbered use\n  version: 0.0.1\npaths:\n" +
			"  /" + order[0] + ":\n    get:\n      responses:\n        default:\n          $ref: '#/components/responses/Problem'\n" +
			"  /" + order[1] + ":\n    get:\n      responses:\n        '200':\n          $ref: '#/components/responses/Problem'\n" +
			"components:\n  responses:\n    Problem:\n      description: problem\n      content:\n        application/json:\n          schema:\n            type: object\n            properties:\n              message:\n                type: string\n"
		c.GenPackage(name, "B", []byte(spec), "", GenFlags{Client: true})
	}
}
