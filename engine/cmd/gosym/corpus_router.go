package main

import (
	"fmt"
	"math/rand"
	"sort"
	"strings"
)

// Router family R (DESIGN 3.2): sets of 1..3 (thorough ..4) pairwise
// non-equivalent templates of depth <= 3 over segments {a, b, {var}, empty-last},
// x method sets x base-path forms, typed path parameters round-robin.

type rTemplate struct {
	Segs []string // "a","b","{}" ; trailing "" for trailing slash
}

func (t rTemplate) String(varNames []string) string {
	var sb strings.Builder
	vi := 0
	for _, s := range t.Segs {
		sb.WriteByte('/')
		if s == "{}" {
			sb.WriteString("{" + varNames[vi%len(varNames)] + "}")
			vi++
		} else {
			sb.WriteString(s)
		}
	}
	return sb.String()
}

func (t rTemplate) key() string { return strings.Join(t.Segs, "/") }

func allRTemplates(depth int) []rTemplate {
	var out []rTemplate
	out = append(out, rTemplate{Segs: []string{""}}) // "/"
	var rec func(cur []string)
	rec = func(cur []string) {
		if len(cur) > 0 {
			out = append(out, rTemplate{Segs: append([]string{}, cur...)})
			out = append(out, rTemplate{Segs: append(append([]string{}, cur...), "")})
		}
		if len(cur) == depth {
			return
		}
		for _, s := range []string{"a", "b", "{}"} {
			rec(append(cur, s))
		}
	}
	rec(nil)
	return out
}

type baseForm struct {
	Name    string
	Servers string // YAML fragment or ""
	Flag    string
}

var baseForms = []baseForm{
	{Name: "none"},
	{Name: "root", Servers: "servers:\n  - url: /\n"},
	{Name: "v1", Servers: "servers:\n  - url: /v1\n"},
	{Name: "v1slash", Servers: "servers:\n  - url: /v1/\n"},
	{Name: "vars", Servers: "servers:\n  - url: https://h.example.com:{port}/{bp}\n    variables:\n      port:\n        default: '8443'\n      bp:\n        default: api/v2\n"},
	{Name: "flag", Flag: "/v1"},
	{Name: "flagslash", Flag: "/v1/"},
	{Name: "host", Servers: "servers:\n  - url: https://api.example.com\n"},
}

var pathParamTypes = []string{
	"type: string",
	"type: integer",
	"type: integer\n            format: int32",
	"type: integer\n            format: int64",
	"type: boolean",
	"type: number",
	"type: number\n            format: float",
	"type: string\n            format: date-time",
	"$ref: '#/components/schemas/PathID'",
}

var methodSets = [][]string{{"get"}, {"get", "post"}, {"post"}, {"get", "delete", "put"}}

type rSpecOpts struct {
	Templates []rTemplate
	Base      baseForm
	Methods   [][]string // per template
	TypeStart int
	VarNames  [][]string // per template
	Cors      bool
	DeclOrder int // 0 template order, 1 reversed, 2 last variable at path-item level
}

func renderRouterSpec(o rSpecOpts) string {
	var sb strings.Builder
	sb.WriteString("openapi: 3.0.3\ninfo:\n  title: router family\n  version: 0.0.1\n")
	sb.WriteString(o.Base.Servers)
	sb.WriteString("paths:\n")
	ti := o.TypeStart
	itemLevel := map[int]string{}
	outer := &sb
	for i, t := range o.Templates {
		vn := o.VarNames[i]
		var sb strings.Builder
		defer func(i int, t rTemplate, vn []string, body *strings.Builder) {}(i, t, vn, &sb)
		for _, m := range o.Methods[i] {
			fmt.Fprintf(&sb, "    %s:\n", m)
			vi := 0
			var params []string
			for _, s := range t.Segs {
				if s == "{}" {
					params = append(params, fmt.Sprintf("        - name: \"%s\"\n          in: path\n          required: true\n          schema:\n            %s\n", vn[vi%len(vn)], pathParamTypes[ti%len(pathParamTypes)]))
					vi++
					ti++
				}
			}
			// declaration order is independent of template order (OpenAPI does not
			// tie them): reversed for some specs, and for others the last
			// variable is declared at path-item level
			if o.DeclOrder == 1 {
				for a, b := 0, len(params)-1; a < b; a, b = a+1, b-1 {
					params[a], params[b] = params[b], params[a]
				}
			}
			if o.DeclOrder == 2 && len(params) > 1 {
				if _, done := itemLevel[i]; !done {
					itemLevel[i] = strings.ReplaceAll(params[len(params)-1], "        ", "      ")
				}
				params = params[:len(params)-1]
			}
			if len(params) > 0 {
				sb.WriteString("      parameters:\n" + strings.Join(params, ""))
			}
			sb.WriteString("      responses:\n        '200':\n          description: ok\n        default:\n          description: other\n")
		}
		fmt.Fprintf(outer, "  %s:\n", t.String(vn))
		if il, ok := itemLevel[i]; ok {
			outer.WriteString("    parameters:\n" + il)
		}
		outer.WriteString(sb.String())
	}
	sb.WriteString("components:\n  schemas:\n    PathID:\n      type: integer\n      format: int64\n")
	return sb.String()
}

func genRouterFamily(c *Ctx, filter func(string) bool) {
	depth, nsets, maxSet := 3, 56, 3
	if c.Tier == "thorough" {
		nsets, maxSet = 160, 4
	}
	all := allRTemplates(depth)
	rng := rand.New(rand.NewSource(c.Seed*7919 + 17))
	type pick struct {
		set  []rTemplate
		name string
	}
	var picks [][]rTemplate
	// hand-picked shapes that exercise shared prefixes, literal-vs-variable
	// fallback, a missing last segment, trailing slashes
	T := func(segs ...string) rTemplate { return rTemplate{Segs: segs} }
	picks = append(picks,
		[]rTemplate{T("a", "{}")},
		[]rTemplate{T("a", "b", "{}")},
		[]rTemplate{T("{}")},
		[]rTemplate{T("{}", "")},
		[]rTemplate{T("a"), T("a", "")},
		[]rTemplate{T("a", "{}"), T("a", "b")},
		[]rTemplate{T("a", "{}", "b"), T("a", "b", "{}")},
		[]rTemplate{T("{}", "a"), T("a", "{}")},
		[]rTemplate{T("a", "b", "a"), T("a", "{}", "b"), T("{}", "b", "b")},
		[]rTemplate{T(""), T("a"), T("{}", "{}")},
		[]rTemplate{T("a", "{}", ""), T("a", "{}")},
		[]rTemplate{T("{}", "{}", "{}"), T("a", "b")},
	)
	seen := map[string]bool{}
	for len(picks) < nsets {
		n := 1 + rng.Intn(maxSet)
		var set []rTemplate
		keys := map[string]bool{}
		for len(set) < n {
			t := all[rng.Intn(len(all))]
			if keys[t.key()] {
				continue
			}
			keys[t.key()] = true
			set = append(set, t)
		}
		sort.Slice(set, func(i, j int) bool { return set[i].key() < set[j].key() })
		var ks []string
		for _, t := range set {
			ks = append(ks, t.key())
		}
		k := strings.Join(ks, " ")
		if seen[k] {
			continue
		}
		seen[k] = true
		picks = append(picks, set)
	}
	// appended after the drawn sets (so that their numbering stays put): templates that
	// share a variable at a non-last position under different parameter names
	// - the route tree has to merge them into one variable child
	distinctFrom := len(picks)
	picks = append(picks,
		[]rTemplate{T("a", "{}", "a"), T("a", "{}", "b")},
		[]rTemplate{T("{}", "a"), T("{}", "b", ""), T("{}", "{}")},
	)
	for i, set := range picks {
		name := fmt.Sprintf("r_%03d", i)
		if filter != nil && !filter(name) {
			continue
		}
		o := rSpecOpts{Templates: set, Base: baseForms[i%len(baseForms)], TypeStart: i, DeclOrder: i % 3}
		for j := range set {
			o.Methods = append(o.Methods, methodSets[(i+j)%len(methodSets)])
			if i%5 == 4 || i >= distinctFrom {
				// different variable names at the same position across templates
				o.VarNames = append(o.VarNames, [][]string{{"x", "y", "z"}, {"p", "q", "r"}, {"id", "kid", "uid"}, {"u", "v", "w"}}[j%4])
			} else {
				o.VarNames = append(o.VarNames, []string{"x", "y", "z"})
			}
		}
		spec := renderRouterSpec(o)
		cfg := ""
		if i%4 == 3 {
			cfg = "cors:\n  enable: true\n"
		}
		u := c.GenPackage(name, "R", []byte(spec), cfg, GenFlags{Client: i%2 == 0, BasePath: o.Base.Flag})
		u.Meta["base_form"] = o.Base.Name
	}
}
