package main

func genSchemaFamily(c *Ctx, filter func(string) bool) {}
