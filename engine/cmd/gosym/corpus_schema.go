package main

import (
	"fmt"
	"math/rand"
	"strings"
)

// Schema family S (DESIGN 3.2): component schemas built by structural recursion:
// object/array/primitive/any x required x nullable x additionalProperties
// {none,true,schema} x allOf orders x oneOf +-discriminator x ref/inline; each
// schema is used as a request body and as a response body.

type sNode struct {
	YAML string // schema body, indented by 0 (lines), without leading key
}

var sPrims = []string{
	"type: string",
	"type: integer",
	"type: integer\nformat: int32",
	"type: integer\nformat: int64",
	"type: number",
	"type: number\nformat: float",
	"type: boolean",
	"type: string\nformat: date-time",
}

func indent(s string, n int) string {
	pad := strings.Repeat(" ", n)
	lines := strings.Split(strings.TrimRight(s, "\n"), "\n")
	for i := range lines {
		lines[i] = pad + lines[i]
	}
	return strings.Join(lines, "\n") + "\n"
}

type sGen struct {
	rng     *rand.Rand
	schemas []string // names defined so far (object schemas usable as $ref)
	defs    map[string]string
	order   []string
	safe    bool // avoid combinations known not to compile on the pinned tree
	lastProps []string // property names of the object built last
}

func (g *sGen) prim() string { return sPrims[g.rng.Intn(len(sPrims))] }

// property value schema (inline or $ref), depth-limited
func (g *sGen) value(depth int) string {
	r := g.rng.Intn(10)
	switch {
	case r < 5 || depth <= 0:
		p := g.prim()
		if g.rng.Intn(4) == 0 && !(g.safe && !strings.Contains(p, "type: string")) {
			p += "\nnullable: true"
		}
		return p
	case r < 6 && len(g.schemas) > 0:
		return "$ref: '#/components/schemas/" + g.schemas[g.rng.Intn(len(g.schemas))] + "'"
	case r < 8:
		return "type: array\nitems:\n" + indent(g.arrayItem(depth-1), 2)
	case r < 9:
		return g.object(depth-1, false)
	default:
		return "{}" // any
	}
}

func (g *sGen) arrayItem(depth int) string {
	if len(g.schemas) > 0 && g.rng.Intn(3) == 0 {
		return "$ref: '#/components/schemas/" + g.schemas[g.rng.Intn(len(g.schemas))] + "'"
	}
	return g.prim()
}

var sPropNames = []string{"id", "name", "tag", "count", "created_at", "owner-id", "kind", "ratio", "active", "items", "meta", "note"}

var sPropNamesB = []string{"extra_a", "extra-b", "xc", "x_date", "xflag"}

func (g *sGen) object(depth int, top bool) string { return g.objectFrom(depth, sPropNames, 4) }

func (g *sGen) objectFrom(depth int, sPropNames []string, maxProps int) string {
	var sb strings.Builder
	sb.WriteString("type: object\n")
	n := 1 + g.rng.Intn(maxProps)
	perm := g.rng.Perm(len(sPropNames))[:n]
	var mine []string
	for _, pi := range perm {
		mine = append(mine, sPropNames[pi])
	}
	defer func() { g.lastProps = mine }() // nested objects built below must not overwrite it
	var req []string
	props := ""
	for _, pi := range perm {
		name := sPropNames[pi]
		val := g.value(depth)
		props += "  " + name + ":\n"
		if g.rng.Intn(5) == 0 && !strings.HasPrefix(val, "{") && !strings.HasPrefix(val, "$ref") {
			props += "    description: |\n      first line of " + name + "\n      second line\n"
		}
		props += indent(val, 4)
		if g.rng.Intn(2) == 0 {
			req = append(req, name)
		}
	}
	if len(req) > 0 {
		sb.WriteString("required:\n")
		for _, r := range req {
			sb.WriteString("  - " + r + "\n")
		}
	}
	sb.WriteString("properties:\n" + props)
	switch g.rng.Intn(5) {
	case 0:
		sb.WriteString("additionalProperties: true\n")
	case 1:
		sb.WriteString("additionalProperties:\n" + indent(g.prim(), 2))
	}
	return sb.String()
}

func (g *sGen) define(name, body string) {
	g.defs[name] = body
	g.order = append(g.order, name)
}

func renderSchemaSpec(g *sGen) string {
	var sb strings.Builder
	sb.WriteString("openapi: 3.0.3\ninfo:\n  title: schema family\n  version: 0.0.1\npaths:\n")
	for i, name := range g.order {
		fmt.Fprintf(&sb, "  /s%d:\n    post:\n      requestBody:\n        required: true\n        content:\n          application/json:\n            schema:\n              $ref: '#/components/schemas/%s'\n", i, name)
		fmt.Fprintf(&sb, "      responses:\n        '200':\n          description: ok\n          content:\n            application/json:\n              schema:\n                $ref: '#/components/schemas/%s'\n        default:\n          description: other\n", name)
	}
	sb.WriteString("components:\n  schemas:\n")
	for _, name := range g.order {
		sb.WriteString("    " + name + ":\n" + indent(g.defs[name], 6))
	}
	return sb.String()
}

func genSchemaFamily(c *Ctx, filter func(string) bool) {
	n, depth := 24, 1
	deepFrom := -1 // packages from this index on use one more level of nesting
	if c.Tier == "thorough" {
		n, deepFrom = 48, 40
		if c.Prop == "C08" || c.Prop == "C18" {
			n, deepFrom = 24, 20 // the document space per type is the expensive dimension here
		}
		if c.Prop == "C20" {
			n, deepFrom = 12, -1 // three harnesses per operation, each with the heap monitor on
		}
	}
	if (c.Prop == "C08" || c.Prop == "C18") && c.Tier != "thorough" {
		n = 12 // the document space per type is the expensive dimension here
	}
	for i := 0; i < n; i++ {
		name := fmt.Sprintf("s_%03d", i)
		if filter != nil && !filter(name) {
			continue
		}
		if deepFrom >= 0 && i >= deepFrom {
			depth = 2
		}
		g := &sGen{rng: rand.New(rand.NewSource(c.Seed*15485863 + int64(i)*31 + 7)), defs: map[string]string{}, safe: true}
		// base objects
		nb := 1 + g.rng.Intn(2)
		var taken []string
		for k := 0; k < nb; k++ {
			nm := fmt.Sprintf("Base%d", k)
			// the bases may meet in one allOf: their property names are disjoint
			// (two members declaring one name with different types have no valid document)
			var pool []string
			for _, pn := range sPropNames {
				used := false
				for _, t := range taken {
					if t == pn {
						used = true
					}
				}
				if !used {
					pool = append(pool, pn)
				}
			}
			g.define(nm, g.objectFrom(depth, pool, 4))
			taken = append(taken, g.lastProps...)
			g.schemas = append(g.schemas, nm)
		}
		switch i % 6 {
		case 0: // allOf [ref, inline]
			g.define("Combo", "allOf:\n  - $ref: '#/components/schemas/Base0'\n  - "+strings.TrimLeft(indent(g.objectFrom(0, sPropNamesB, 3), 4), " "))
		case 1: // allOf [inline, ref]
			g.define("Combo", "allOf:\n  - "+strings.TrimLeft(indent(g.objectFrom(0, sPropNamesB, 3), 4), " ")+"  - $ref: '#/components/schemas/Base0'\n")
		case 2: // allOf [ref, ref] when two bases
			if nb > 1 {
				g.define("Combo", "allOf:\n  - $ref: '#/components/schemas/Base0'\n  - $ref: '#/components/schemas/Base1'\n")
			}
		case 3: // oneOf without discriminator over base + primitive
			g.define("VarA", "type: object\nrequired:\n  - a_only\nproperties:\n  a_only:\n    type: string\n  shared:\n    type: integer\n")
			g.define("VarB", "type: object\nrequired:\n  - b_only\nproperties:\n  b_only:\n    type: integer\n    format: int64\n  shared:\n    type: integer\n")
			g.define("Choice", "oneOf:\n  - $ref: '#/components/schemas/VarA'\n  - $ref: '#/components/schemas/VarB'\n")
			// discriminated oneOf with a PARTIAL explicit mapping (third variant implicit)
			for _, v := range []string{"Circle", "Square", "Tri"} {
				g.define(v, "type: object\nrequired:\n  - kind\nproperties:\n  kind:\n    type: string\n  "+strings.ToLower(v)+"_size:\n    type: integer\n")
			}
			g.define("Shape", "oneOf:\n  - $ref: '#/components/schemas/Circle'\n  - $ref: '#/components/schemas/Square'\n  - $ref: '#/components/schemas/Tri'\ndiscriminator:\n  propertyName: kind\n  mapping:\n    circle: '#/components/schemas/Circle'\n    square: '#/components/schemas/Square'\n")
		case 4: // array of base
			g.define("List", "type: array\nitems:\n  $ref: '#/components/schemas/Base0'\n")
		case 5: // all-optional base embedded first, then inline required
			g.define("Opt", "type: object\nproperties:\n  label:\n    type: string\n  rank:\n    type: integer\n")
			g.define("Combo", "allOf:\n  - $ref: '#/components/schemas/Opt'\n  - type: object\n    required:\n      - id\n    properties:\n      id:\n        type: integer\n        format: int64\n")
		}
		g.define("Wrapper", g.object(depth, true))
		u := c.GenPackage(name, "S", []byte(renderSchemaSpec(g)), "", GenFlags{Client: i%2 == 0})
		_ = u
	}
}
