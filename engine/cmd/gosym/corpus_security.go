package main

import (
	"fmt"
	"math/rand"
	"strings"
)

// Security family A (DESIGN 3.2): global in {none,[A],[A,B]} x per-operation in
// {inherit,[],[A],[B],[A,B],[A and B]} for 2..3 operations sharing or not
// sharing a path; A,B drawn from scheme kinds; cors on/off.

type secKind struct {
	Name string
	YAML string
}

var secKinds = []secKind{
	{"bearer", "type: http\n      scheme: bearer"},
	{"keyhdr", "type: apiKey\n      in: header\n      name: X-Api-Key"},
	{"keyqry", "type: apiKey\n      in: query\n      name: api_token"},
	{"keyhdr2", "type: apiKey\n      in: header\n      name: x-second-key"},
	{"basic", "type: http\n      scheme: basic"},
	{"oauth", "type: oauth2\n      flows:\n        implicit:\n          authorizationUrl: https://example.com/auth\n          scopes:\n            read: read things"},
}

var perOpForms = []string{"inherit", "empty", "A", "B", "AorB", "AandB"}

func secReq(form, a, b string, indent string) string {
	switch form {
	case "inherit":
		return ""
	case "empty":
		return indent + "security: []\n"
	case "A":
		return indent + "security:\n" + indent + "  - " + a + ": []\n"
	case "B":
		return indent + "security:\n" + indent + "  - " + b + ": []\n"
	case "AorB":
		return indent + "security:\n" + indent + "  - " + a + ": []\n" + indent + "  - " + b + ": []\n"
	case "AandB":
		return indent + "security:\n" + indent + "  - " + a + ": []\n" + indent + "    " + b + ": []\n"
	}
	return ""
}

type secSpecOpts struct {
	A, B      secKind
	Global    string // "none","A","AorB"
	OpForms   []string
	SharePath bool
	Headers   bool // declare header parameters too (for CORS sets)
}

func renderSecuritySpec(o secSpecOpts) string {
	var sb strings.Builder
	sb.WriteString("openapi: 3.0.3\ninfo:\n  title: security family\n  version: 0.0.1\n")
	switch o.Global {
	case "A":
		sb.WriteString(secReq("A", "schemeA", "schemeB", ""))
	case "AorB":
		sb.WriteString(secReq("AorB", "schemeA", "schemeB", ""))
	}
	sb.WriteString("paths:\n")
	methods := []string{"get", "post", "put"}
	hdrParam := func(name string) string {
		return fmt.Sprintf("      parameters:\n        - name: %s\n          in: header\n          schema:\n            type: string\n", name)
	}
	if o.SharePath {
		sb.WriteString("  /items:\n")
		for i, f := range o.OpForms {
			fmt.Fprintf(&sb, "    %s:\n", methods[i%3])
			sb.WriteString(secReq(f, "schemeA", "schemeB", "      "))
			if o.Headers {
				sb.WriteString(hdrParam([]string{"x-request-id", "If-Match", "x-request-id"}[i%3]))
			}
			sb.WriteString("      responses:\n        '200':\n          description: ok\n        '401':\n          description: unauthorized\n")
		}
	} else {
		for i, f := range o.OpForms {
			fmt.Fprintf(&sb, "  /items%d:\n    %s:\n", i, methods[i%3])
			sb.WriteString(secReq(f, "schemeA", "schemeB", "      "))
			if o.Headers {
				sb.WriteString(hdrParam([]string{"x-request-id", "If-Match", "X-Trace"}[i%3]))
			}
			sb.WriteString("      responses:\n        '200':\n          description: ok\n        '401':\n          description: unauthorized\n")
		}
	}
	fmt.Fprintf(&sb, "components:\n  securitySchemes:\n    schemeA:\n      %s\n    schemeB:\n      %s\n", o.A.YAML, o.B.YAML)
	return sb.String()
}

func genSecurityFamily(c *Ctx, filter func(string) bool) {
	n := 40
	if c.Tier == "thorough" {
		n = 100
	}
	rng := rand.New(rand.NewSource(c.Seed*104729 + 5))
	type cfg struct {
		a, b   int
		global string
		forms  []string
		share  bool
	}
	var cfgs []cfg
	// hand-picked cross terms first
	cfgs = append(cfgs,
		cfg{0, 1, "none", []string{"A", "B", "empty"}, true},  // bearer GET, apiKey POST, public PUT on one path
		cfg{0, 1, "A", []string{"inherit", "empty"}, true},    // global bearer, public sibling
		cfg{0, 1, "AorB", []string{"inherit", "A", "B"}, true}, //
		cfg{1, 3, "none", []string{"A", "B", "empty"}, true},  // two apiKey headers
		cfg{0, 2, "none", []string{"A", "B"}, false},          // bearer vs query key, different paths
		cfg{1, 2, "A", []string{"inherit", "B", "empty"}, false},
		cfg{0, 1, "none", []string{"AandB", "A"}, true},       // AND requirement (known finding)
		cfg{0, 4, "none", []string{"B", "A"}, false},          // unsupported kind (known finding)
		cfg{0, 5, "A", []string{"B", "inherit"}, true},        // oauth2 (unsupported)
		cfg{2, 1, "none", []string{"A", "empty"}, true},       // query key only
	)
	globals := []string{"none", "A", "AorB"}
	for len(cfgs) < n {
		k := 2 + rng.Intn(2)
		var forms []string
		for i := 0; i < k; i++ {
			forms = append(forms, perOpForms[rng.Intn(len(perOpForms))])
		}
		a := rng.Intn(4)
		b := rng.Intn(len(secKinds))
		if rng.Intn(4) != 0 {
			b = rng.Intn(4)
		}
		if a == b {
			b = (a + 1) % 4
		}
		cfgs = append(cfgs, cfg{a, b, globals[rng.Intn(3)], forms, rng.Intn(2) == 0})
	}
	for i, cf := range cfgs {
		name := fmt.Sprintf("a_%03d", i)
		if filter != nil && !filter(name) {
			continue
		}
		o := secSpecOpts{A: secKinds[cf.a], B: secKinds[cf.b], Global: cf.global, OpForms: cf.forms, SharePath: cf.share, Headers: i%2 == 1}
		cfgYAML := ""
		if i%2 == 1 {
			cfgYAML = "cors:\n  enable: true\n"
		}
		u := c.GenPackage(name, "A", []byte(renderSecuritySpec(o)), cfgYAML, GenFlags{Client: i%3 == 0})
		u.Meta["sec"] = fmt.Sprintf("A=%s B=%s global=%s ops=%v share=%v", o.A.Name, o.B.Name, cf.global, cf.forms, cf.share)
	}
}
