package main

import (
	"fmt"
	"go/ast"
	"regexp"
	"strconv"
	"os"
	"path/filepath"
	"sort"
	"strings"
)

type respRef struct {
	Status  string // "200" or "default"
	Node    M      // resolved response object
	Media   string // "" none, "application/json", or another type
	Schema  M
	Headers map[string]M // canonical name -> header object (resolved)
}

func opResponses(s *SpecRef, op *OpRef) []respRef {
	var out []respRef
	rs := asM(op.Node["responses"])
	var keys []string
	for k := range rs {
		keys = append(keys, k)
	}
	sort.Strings(keys)
	for _, k := range keys {
		node := s.Resolve(asM(rs[k]))
		rr := respRef{Status: k, Node: node, Headers: map[string]M{}}
		content := asM(node["content"])
		var mts []string
		for mt := range content {
			mts = append(mts, mt)
		}
		sort.Strings(mts)
		for _, mt := range mts {
			if mt == "application/json" {
				rr.Media = mt
				rr.Schema = asM(asM(content[mt])["schema"])
			}
		}
		if rr.Media == "" && len(mts) > 0 {
			rr.Media = mts[0]
		}
		for hn, hv := range asM(node["headers"]) {
			rr.Headers[canonHeader(hn)] = s.Resolve(asM(hv))
		}
		out = append(out, rr)
	}
	return out
}

// genC02Harness: every implementer of an operation's response interface, with an
// arbitrary value, must be written as one of the operation's documented responses.
func genC02Harness(u *PkgUnit) (int, error) {
	s := u.Spec
	g := u.Gen
	var sb strings.Builder
	sb.WriteString(harnessHeader(u, "io"))
	sb.WriteString("var _ io.Reader\n\n")
	codec := g.allStructTypes()
	var wf strings.Builder
	g.emitWF(&wf, codec, s)
	sb.WriteString(strings.ReplaceAll(wf.String(), "verifWF_", "verifC02WF_"))
	isCodec := map[string]bool{}
	for _, t := range codec {
		isCodec[t] = true
	}
	ve := &valEmitter{spec: s, sb: &sb}
	var vb strings.Builder
	emitValidators(&vb, s)
	sb.WriteString(strings.ReplaceAll(vb.String(), "verifSchema_", "verifC02Schema_"))
	n := 0
	for _, op := range s.Ops {
		idx, h, ok := opHandler(u, op)
		if !ok || h.WriteM == "" {
			continue
		}
		impls := g.ResponseImplementers(h.WriteM)
		var real []string
		for _, t := range impls {
			if t != "verifResp" {
				real = append(real, t)
			}
		}
		if len(real) == 0 {
			continue
		}
		docs := opResponses(s, op)
		n++
		// body validators per documented response
		for di, d := range docs {
			if d.Media == "application/json" && d.Schema != nil {
				fmt.Fprintf(&sb, "func verifC02Body_%d_%d(j vrt.JSON, strict bool) bool {\n", idx, di)
				var tmp strings.Builder
				ve.sb = &tmp
				ve.emit(d.Schema, "j", "\t", 0)
				sb.WriteString(strings.ReplaceAll(tmp.String(), "verifSchema_", "verifC02Schema_"))
				sb.WriteString("\treturn true\n}\n\n")
			}
		}
		fmt.Fprintf(&sb, "// %s %s: implementers %v\nfunc VerifC02_Op%d() {\n", op.Method, op.Tmpl.Raw, real, idx)
		for _, d := range docs {
			fmt.Fprintf(&sb, "\tvrt.MustReach(\"documented response %s is producible\")\n", d.Status)
		}
		for k, t := range real {
			fmt.Fprintf(&sb, "\tvar v%d %s\n\t_ = v%d\n", k, t, k)
		}
		fmt.Fprintf(&sb, "\tvar resp %s\n\tdefCode := 0\n\t_ = defCode\n\timpl := vrt.Choose(\"implementer\", %d)\n\tswitch impl {\n", h.RespType, len(real))
		for k, t := range real {
			fmt.Fprintf(&sb, "\tcase %d:\n\t\tvar v %s\n\t\tvrt.Arbitrary(&v, \"v\")\n", k, t)
			for _, f := range g.structFields(t) {
				switch {
				case f[0] == "Body" && (f[1] == "io.ReadCloser" || f[1] == "io.Reader"):
					sb.WriteString("\t\tv.Body = io.NopCloser(strings.NewReader(vrt.String(\"raw_body\", 6)))\n")
				case f[0] == "Body" && isCodec[f[1]]:
					fmt.Fprintf(&sb, "\t\tvrt.Assume(verifC02WF_%s(v.Body))\n", f[1])
				case f[0] == "Code":
					sb.WriteString("\t\tvrt.Assume(v.Code >= 100 && v.Code <= 599)\n\t\tdefCode = v.Code\n")
				case f[0] == "Body" && (strings.HasPrefix(f[1], "[]") || g.isNamedSlice(f[1])):
					sb.WriteString("\t\tvrt.Known(\"C02-nil-array-body-written-as-null\", v.Body == nil)\n")
				}
			}
			fmt.Fprintf(&sb, "\t\tv%d = v\n\t\tresp = v\n", k)
		}
		sb.WriteString("\t}\n\thit := 0\n")
		emitAPISetup(&sb, u, func(i int, gh *GenHandler) string { return fmt.Sprintf("\t\thit = %d\n", i) })
		// the operation under test returns the chosen response
		fmt.Fprintf(&sb, "\tapi.%s = func(ctx context.Context, r %s) %s {\n\t\thit = %d\n\t\treturn resp\n\t}\n", h.Field, h.ReqType, h.RespType, idx)
		sb.WriteString("\thdr := http.Header{}\n\tquery := url.Values{}\n")
		emitAcceptAllSecurity(&sb, u)
		fmt.Fprintf(&sb, "\tw := newVerifRec()\n\tu := &url.URL{Path: %q}\n\tvrt.SetQuery(u, query)\n\tr := &http.Request{Method: %q, URL: u, Header: hdr, Body: http.NoBody}\n\tvrt.Enter()\n\tapi.ServeHTTP(w, r)\n\tvrt.Assert(hit == %d, \"harness: the operation was not dispatched\")\n\tif hit != %d {\n\t\treturn\n\t}\n",
			concreteOpPath(u, op), op.Method, idx, idx)
		sb.WriteString("\tvrt.Assert(w.nWH == 1, \"the response status was not written exactly once\")\n")
		for k, t := range real {
			want := g.intendedStatus(t, h.WriteM)
			di := -1
			for i, d := range docs {
				if d.Status == want {
					di = i
				}
			}
			fmt.Fprintf(&sb, "\tif impl == %d {\n", k)
			if di < 0 {
				fmt.Fprintf(&sb, "\t\tvrt.Fail(\"type %s satisfies the operation's response type but stands for no response the operation documents (%s)\")\n\t}\n", t, want)
				continue
			}
			d := docs[di]
			if d.Status == "default" {
				sb.WriteString("\t\tvrt.Assert(w.status == defCode, \"default response was not written with the caller-supplied code\")\n")
			} else {
				fmt.Fprintf(&sb, "\t\tvrt.Assert(w.status == %s, \"response was not written with its documented status code\")\n", d.Status)
			}
			fmt.Fprintf(&sb, "\t\tvrt.Reach(\"documented response %s is producible\")\n", d.Status)
			raw := false
			for _, f := range g.structFields(t) {
				if f[0] == "Body" && f[1] == "json.RawMessage" {
					raw = true // the caller supplies the JSON text verbatim: its content is the caller's
				}
			}
			emitRespChecks(&sb, idx, di, d, raw)
			var hb strings.Builder
			g.emitHeaderCountChecks(&hb, t, d)
			sb.WriteString(strings.ReplaceAll(hb.String(), "v.Headers.", fmt.Sprintf("v%d.Headers.", k)))
			sb.WriteString("\t}\n")
		}
		sb.WriteString("}\n\n")
	}
	if n == 0 {
		return 0, nil
	}
	return n, os.WriteFile(filepath.Join(u.Dir, "zz_verif_c02.go"), []byte(sb.String()), 0o644)
}

var reWriteCall = regexp.MustCompile(`\.Write\(w(?:,\s*([0-9]+))?\)`)
var reWriteHeader = regexp.MustCompile(`WriteHeader\(([^)]*)\)`)

// intendedStatus: which documented response an implementer stands for in
// operation writeM: "200", "default", or "" when it cannot be told.
func (g *GenPkg) intendedStatus(t, writeM string) string {
	ms := g.Methods[t]
	if ms == nil {
		return ""
	}
	src := g.funcSource(ms[writeM])
	if m := reWriteCall.FindStringSubmatch(src); m != nil && m[1] != "" {
		return m[1]
	}
	wsrc := g.funcSource(ms["Write"])
	if m := reWriteHeader.FindStringSubmatch(wsrc); m != nil {
		arg := strings.TrimSpace(m[1])
		if arg == "r.Code" {
			return "default"
		}
		if _, err := strconv.Atoi(arg); err == nil {
			return arg
		}
	}
	return ""
}

func emitRespChecks(sb *strings.Builder, idx, di int, d respRef, rawJSONBody bool) {
	// content type
	if d.Media == "" {
		sb.WriteString("\t\tvrt.Assert(len(w.hdr[\"Content-Type\"]) == 0, \"Content-Type set on a response documented without content\")\n")
		sb.WriteString("\t\tvrt.Assert(len(w.body) == 0, \"body written on a response documented without content\")\n")
	} else {
		fmt.Fprintf(sb, "\t\tvrt.Assert(len(w.hdr[\"Content-Type\"]) == 1 && w.hdr[\"Content-Type\"][0] == %q, \"Content-Type differs from the documented media type\")\n", d.Media)
	}
	// declared headers: required ones present; nothing undeclared
	var hn []string
	for h := range d.Headers {
		hn = append(hn, h)
	}
	sort.Strings(hn)
	for _, h := range hn {
		req, _ := d.Headers[h]["required"].(bool)
		isArr := asS(asM(d.Headers[h]["schema"])["type"]) == "array"
		if req && !isArr {
			fmt.Fprintf(sb, "\t\tvrt.Assert(len(w.hdr[%q]) == 1, \"required response header %s is not written exactly once\")\n", h, h)
		}
	}
	sb.WriteString("\t\tfor k := range w.hdr {\n\t\t\tdeclared := k == \"Content-Type\"\n")
	for _, h := range hn {
		fmt.Fprintf(sb, "\t\t\tif k == %q {\n\t\t\t\tdeclared = true\n\t\t\t}\n", h)
	}
	sb.WriteString("\t\t\tvrt.Assert(declared, \"a response header that the response does not declare was written\")\n\t\t}\n")
	if d.Media == "application/json" && d.Schema != nil && !rawJSONBody {
		fmt.Fprintf(sb, "\t\tj, ok := vrt.ParseJSON([]byte(w.body))\n\t\tvrt.Assert(ok, \"response body is not JSON\")\n\t\tif ok {\n\t\t\tvrt.Assert(verifC02Body_%d_%d(j, true), \"response body does not conform to the documented schema\")\n\t\t}\n", idx, di)
	}
}

func (g *GenPkg) isNamedSlice(t string) bool {
	ts := g.Types[t]
	if ts == nil {
		return false
	}
	_, ok := ts.Type.(*ast.ArrayType)
	return ok
}

// allStructTypes: every non-generic named struct/slice/map type of the package
// except harness types (for validity predicates).
func (g *GenPkg) allStructTypes() []string {
	var out []string
	for t, ts := range g.Types {
		if ts.TypeParams != nil || strings.HasPrefix(t, "verif") {
			continue
		}
		switch ts.Type.(type) {
		case *ast.StructType, *ast.ArrayType, *ast.MapType:
			out = append(out, t)
		}
	}
	sort.Strings(out)
	return out
}

// headerFields lists the fields of T's inline `Headers struct{...}` member.
func (g *GenPkg) headerFields(t string) [][2]string {
	ts := g.Types[t]
	if ts == nil {
		return nil
	}
	st, ok := ts.Type.(*ast.StructType)
	if !ok {
		return nil
	}
	for _, f := range st.Fields.List {
		for _, n := range f.Names {
			if n.Name != "Headers" {
				continue
			}
			switch ht := f.Type.(type) {
			case *ast.StructType:
				var out [][2]string
				for _, hf := range ht.Fields.List {
					for _, hn := range hf.Names {
						out = append(out, [2]string{hn.Name, exprText(hf.Type)})
					}
				}
				return out
			case *ast.Ident:
				return g.structFields(ht.Name)
			}
		}
	}
	return nil
}

// emitHeaderCountChecks: an array header is written once per item; an optional
// header is written iff it is set.
func (g *GenPkg) emitHeaderCountChecks(sb *strings.Builder, t string, d respRef) {
	hf := g.headerFields(t)
	var hn []string
	for h := range d.Headers {
		hn = append(hn, h)
	}
	sort.Strings(hn)
	for _, h := range hn {
		fn, ft, ok := fieldFor(hf, h)
		if !ok {
			continue
		}
		val := "v.Headers." + fn
		guard := ""
		if o, in, isG := unwrapGeneric(ft); isG && isMaybe(o) {
			guard = val + ".IsSet"
			val += ".Value"
			ft = in
		}
		isSlice := strings.HasPrefix(ft, "[]") || g.isNamedSlice(ft)
		want := "1"
		if isSlice {
			want = "len(" + val + ")"
		}
		if guard != "" {
			fmt.Fprintf(sb, "\t\tif %s {\n\t\t\tvrt.Assert(len(w.hdr[%q]) == %s, \"response header %s: number of written values differs from the value's items\")\n\t\t} else {\n\t\t\tvrt.Assert(len(w.hdr[%q]) == 0, \"optional response header %s written although unset\")\n\t\t}\n", guard, h, want, h, h, h)
		} else {
			fmt.Fprintf(sb, "\t\tvrt.Assert(len(w.hdr[%q]) == %s, \"response header %s: number of written values differs from the value's items\")\n", h, want, h)
		}
	}
}
