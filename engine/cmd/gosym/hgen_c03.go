package main

import (
	"fmt"
	"os"
	"path/filepath"
	"strings"
)

// genRouteHarness writes the routing harness used by C03 (dispatch), C05 (path
// parameters, withParse) and C16 (middleware trace, nMW>0).
type routeOpts struct {
	Prop     string
	L        int
	WithParse bool // C05: handlers call Parse() and compare path params
	MaxMW    int  // C16: symbolic number of middlewares 0..MaxMW
	Spec     bool // include spec-file handler choice
}

func emitAPISetup(sb *strings.Builder, u *PkgUnit, body func(i int, h *GenHandler) string) {
	sb.WriteString("\tapi := &API{}\n")
	for i, h := range u.Gen.Handlers {
		fmt.Fprintf(sb, "\tapi.%s = func(ctx context.Context, r %s) %s {\n%s\t\treturn verifResp{}\n\t}\n", h.Field, h.ReqType, h.RespType, body(i+1, h))
	}
}

// emitCreds installs accepting authenticators and supplies every credential so
// that routing harnesses reach the handlers of secured operations.
func emitAcceptAllSecurity(sb *strings.Builder, u *PkgUnit) {
	for _, f := range u.Gen.SecFields {
		fmt.Fprintf(sb, "\tapi.%s = func(r *http.Request, token string) (*http.Request, bool) { return r, true }\n", f)
	}
	q := false
	for _, c := range specCreds(u.Spec) {
		switch c.Kind {
		case "bearer":
			sb.WriteString("\thdr[\"Authorization\"] = []string{\"Bearer t\"}\n")
		case "apikey-header":
			fmt.Fprintf(sb, "\thdr[%q] = []string{\"k\"}\n", canonHeader(c.Name))
		case "apikey-query":
			fmt.Fprintf(sb, "\tquery[%q] = []string{\"k\"}\n", c.Name)
			q = true
		}
	}
	_ = q
}

func genC03Harness(u *PkgUnit, o routeOpts) error {
	s := u.Spec
	var sb strings.Builder
	sb.WriteString("//go:build verif\n\npackage " + u.Gen.Name + "\n\n")
	sb.WriteString("import (\n\t\"context\"\n\t\"net/http\"\n\t\"net/url\"\n\t\"strings\"\n\n\t\"vscratch/vrt\"\n)\n\nvar _ = strings.HasPrefix\nvar _ context.Context\n\n")
	emitMatchFuncs(&sb, s)

	// reference dispatch: first (in literal-first rank order) operation whose
	// template matches and whose method equals the request method
	sb.WriteString("// verifRefRoute: OpenAPI path matching under the base path (reference).\nfunc verifRefRoute(path, method string) (want int, tmpl string) {\n")
	missing := []string{}
	for k, t := range s.Tmpls {
		for _, m := range methodOrder {
			op := t.Ops[strings.ToUpper(m)]
			if op == nil {
				continue
			}
			idx, _, ok := opHandler(u, op)
			if !ok {
				missing = append(missing, op.Method+" "+t.Raw)
				continue
			}
			fmt.Fprintf(&sb, "\tif want == 0 && method == %q {\n\t\tif ok%s := verifMatch%d(path); ok {\n\t\t\twant, tmpl = %d, %q\n\t\t}\n\t}\n", op.Method, blanks(nVars(t)), k, idx, t.Raw)
		}
	}
	sb.WriteString("\treturn\n}\n\n")
	u.Meta["missing_handlers"] = strings.Join(missing, "; ")

	fmt.Fprintf(&sb, "func Verif%sRoute() {\n", o.Prop)
	L := pathBound(s, o.L)
	u.Meta["L"] = fmt.Sprint(L)
	fmt.Fprintf(&sb, "\tpath := vrt.String(\"path\", %d)\n\tmethod := vrt.String(\"method\", 8)\n", L)
	sb.WriteString("\thit, nhit := 0, 0\n\tmwTmpl, mwOK, mwRan := \"\", false, 0\n\t_ = mwTmpl\n")
	emitAPISetup(&sb, u, func(i int, h *GenHandler) string {
		return fmt.Sprintf("\t\thit = %d\n\t\tnhit++\n", i)
	})
	sb.WriteString("\thdr := http.Header{}\n\tquery := url.Values{}\n")
	emitAcceptAllSecurity(&sb, u)
	sb.WriteString(`	nfRan := 0
	customNF := vrt.Bool("custom_notfound")
	if customNF {
		api.NotFoundHandler = verifMarker{ran: &nfRan, status: 298}
	}
	api.Middlewares = []func(http.Handler) http.Handler{func(next http.Handler) http.Handler {
		return http.HandlerFunc(func(w http.ResponseWriter, r *http.Request) {
			mwRan++
			mwTmpl, mwOK = SchemaPath(r)
			next.ServeHTTP(w, r)
		})
	}}
	w := newVerifRec()
	u := &url.URL{Path: path}
	vrt.SetQuery(u, query)
	r := &http.Request{Method: method, URL: u, Header: hdr, Body: http.NoBody}
	vrt.Enter()
	api.ServeHTTP(w, r)
	want, wantTmpl := verifRefRoute(path, method)
	if want != 0 {
		vrt.Reach("routed")
	} else {
		vrt.Reach("unrouted")
	}
	vrt.Assert(hit == want, "dispatched operation differs from OpenAPI path matching under the base path")
	vrt.Assert(nhit <= 1, "more than one operation handler ran")
	if want != 0 && hit == want {
		vrt.Assert(mwRan == 1 && mwOK && mwTmpl == wantTmpl, "template reported to middleware is not the dispatched operation's template")
		vrt.Assert(w.status == 299 && nfRan == 0, "routed request did not get the handler's response")
	}
	if want == 0 && hit == 0 {
		if customNF {
			vrt.Assert(nfRan == 1 && w.status == 298, "custom not-found handler did not run for an unrouted request")
		} else {
			vrt.Assert(w.status == 404, "unrouted request was not answered 404")
		}
		vrt.Assert(mwRan == 0, "middleware ran for an unrouted request")
	}
}
`)
	return os.WriteFile(filepath.Join(u.Dir, "zz_verif_"+strings.ToLower(o.Prop)+".go"), []byte(sb.String()), 0o644)
}

// pathBound: the byte bound on the symbolic request path for one package: at
// least minL, and enough for base path + longest template (variables counted
// as 3 bytes) + 6 free bytes.
func pathBound(s *SpecRef, minL int) int {
	longest := 0
	for _, t := range s.Tmpls {
		n := 0
		for _, sg := range t.Segs {
			n++
			if sg.IsVar {
				n += 3
			} else {
				n += len(sg.Lit)
			}
		}
		if n > longest {
			longest = n
		}
	}
	L := len(s.BasePath) + longest + 6
	if L < minL {
		L = minL
	}
	if L > 72 {
		L = 72
	}
	return L
}
