package main

import (
	"fmt"
	"os"
	"path/filepath"
	"strings"
)

// validPathLexeme: a concrete valid segment for a typed path parameter.
func concreteOpPath(u *PkgUnit, op *OpRef) string {
	p := u.Spec.BasePath
	for _, sg := range op.Tmpl.Segs {
		p += "/"
		if !sg.IsVar {
			p += sg.Lit
			continue
		}
		lex := "v"
		for _, prm := range op.Params {
			if prm.In == "path" && prm.Name == sg.Var {
				if l, ok := validLexeme(prm.Kind); ok {
					lex = l
				}
			}
		}
		p += lex
	}
	return p
}

func goIdent(s string) string { return reNonAlnum.ReplaceAllString(s, "_") }

func valueBound(kind string, tier string) int {
	switch kind {
	case "int", "int64":
		if tier == "thorough" {
			return 21
		}
		return 12
	case "int32":
		return 12
	case "time":
		return 8
	}
	return 6
}

// genC04Harness: query/header parameter parsing of every operation.
func genC04Harness(u *PkgUnit, tier string) (int, error) {
	s := u.Spec
	g := u.Gen
	var sb strings.Builder
	sb.WriteString(harnessHeader(u, "errors", "strconv", "time"))
	sb.WriteString("var _ = errors.New\nvar _ = strconv.Itoa\nvar _ = time.RFC3339\n\n")
	n := 0
	for _, op := range s.Ops {
		idx, h, ok := opHandler(u, op)
		if !ok || !h.HasParams {
			continue
		}
		var prms []*ParamRef
		for _, p := range op.Params {
			if p.In != "query" && p.In != "header" {
				continue
			}
			if _, okk := validLexeme(p.Kind); !okk {
				continue
			}
			prms = append(prms, p)
		}
		if len(prms) == 0 {
			continue
		}
		qf := g.structFields(h.Base + "ParamsQuery")
		hf := g.structFields(h.Base + "ParamsHeaders")
		type pinfo struct {
			p     *ParamRef
			id    string
			field string
			ftype string
			found bool
		}
		var infos []pinfo
		for _, p := range prms {
			pi := pinfo{p: p, id: goIdent(p.In + "_" + p.Name)}
			fields, sel := qf, "Query"
			if p.In == "header" {
				fields, sel = hf, "Headers"
			}
			if fn, ft, okf := fieldFor(fields, p.Name); okf {
				pi.field, pi.ftype, pi.found = "prm."+sel+"."+fn, ft, true
			}
			infos = append(infos, pi)
		}
		n++
		fmt.Fprintf(&sb, "// %s %s\nfunc VerifC04_Op%d() {\n\thit := 0\n\tvar prm %sParams\n\tvar perr error\n\t_ = prm\n", op.Method, op.Tmpl.Raw, idx, h.Base)
		emitAPISetup(&sb, u, func(i int, gh *GenHandler) string {
			if i == idx {
				return fmt.Sprintf("\t\thit = %d\n\t\tprm, perr = r.Parse()\n", i)
			}
			return fmt.Sprintf("\t\thit = %d\n", i)
		})
		sb.WriteString("\thdr := http.Header{}\n\tquery := url.Values{}\n")
		emitAcceptAllSecurity(&sb, u)
		// one designated parameter is fully symbolic (presence, cardinality, bytes);
		// the others carry one valid concrete value (required ones always,
		// optional ones all together or not at all)
		fmt.Fprintf(&sb, "\tdev := vrt.Choose(\"designated_parameter\", %d)\n\tothers := vrt.Bool(\"other_optionals_present\")\n\t_ = others\n", len(infos))
		for k, pi := range infos {
			b := valueBound(pi.p.Kind, tier)
			lex, _ := validLexeme(pi.p.Kind)
			fmt.Fprintf(&sb, "\thas_%s, two_%s, a_%s, b_%s := false, false, \"\", \"\"\n", pi.id, pi.id, pi.id, pi.id)
			fmt.Fprintf(&sb, "\tif dev == %d {\n\t\thas_%s = vrt.Bool(\"has_%s\")\n\t\ttwo_%s = vrt.Bool(\"two_values_%s\")\n\t\ta_%s = vrt.String(\"val0_%s\", %d)\n\t\tb_%s = vrt.String(\"val1_%s\", %d)\n\t}", k, pi.id, pi.id, pi.id, pi.id, pi.id, pi.id, b, pi.id, pi.id, b)
			if pi.p.Required {
				fmt.Fprintf(&sb, " else {\n\t\thas_%s, a_%s = true, %q\n\t}\n", pi.id, pi.id, lex)
			} else {
				fmt.Fprintf(&sb, " else if others {\n\t\thas_%s, a_%s = true, %q\n\t}\n", pi.id, pi.id, lex)
			}
			target := fmt.Sprintf("query[%q]", pi.p.Name)
			if pi.p.In == "header" {
				target = fmt.Sprintf("hdr[%q]", canonHeader(pi.p.Name))
			}
			fmt.Fprintf(&sb, "\tif has_%s {\n\t\tif two_%s {\n\t\t\t%s = []string{a_%s, b_%s}\n\t\t} else {\n\t\t\t%s = []string{a_%s}\n\t\t}\n\t}\n", pi.id, pi.id, target, pi.id, pi.id, target, pi.id)
		}
		fmt.Fprintf(&sb, "\tw := newVerifRec()\n\tu := &url.URL{Path: %q}\n\tvrt.SetQuery(u, query)\n\tr := &http.Request{Method: %q, URL: u, Header: hdr, Body: http.NoBody}\n\tvrt.Enter()\n\tapi.ServeHTTP(w, r)\n\tvrt.Assert(hit == %d, \"harness: the operation was not dispatched\")\n\tif hit != %d {\n\t\treturn\n\t}\n",
			concreteOpPath(u, op), op.Method, idx, idx)
		// oracle per parameter
		sb.WriteString("\tanyFail := false\n\tnamed := false\n\tvar pe ErrParseParam\n\tisPE := perr != nil && errors.As(perr, &pe)\n\t_ = isPE\n\t// an error that is not about a parameter (request body, path) carries no claim here\n\tparamErr := isPE || (perr != nil && strings.Contains(perr.Error(), \"parameter '\"))\n\tif perr != nil && !paramErr {\n\t\tvrt.Reach(\"non-parameter-error\")\n\t\treturn\n\t}\n")
		for _, pi := range infos {
			id := pi.id
			declA, _, _ := refParse(pi.p.Kind, "a_"+id, "ra_"+id, "x")
			declB, _, _ := refParse(pi.p.Kind, "b_"+id, "rb_"+id, "x")
			sb.WriteString(declA)
			sb.WriteString(declB)
			if pi.p.Kind == "string" {
				// nothing parsed: silence unused
			} else {
				fmt.Fprintf(&sb, "\t_, _ = ra_%sV, rb_%sV\n", id, id)
			}
			fmt.Fprintf(&sb, "\t_, _ = ra_%sValid, rb_%sValid\n\tfail_%s := false\n", id, id, id)
			if pi.p.Required {
				fmt.Fprintf(&sb, "\tif !has_%s {\n\t\tfail_%s = true\n\t}\n", id, id)
			}
			if !pi.p.IsArray {
				fmt.Fprintf(&sb, "\tif has_%s && two_%s {\n\t\tfail_%s = true\n\t}\n", id, id, id)
				fmt.Fprintf(&sb, "\tif has_%s && !two_%s && !ra_%sValid {\n\t\tfail_%s = true\n\t}\n", id, id, id, id)
			} else {
				fmt.Fprintf(&sb, "\tif has_%s && (!ra_%sValid || (two_%s && !rb_%sValid)) {\n\t\tfail_%s = true\n\t}\n", id, id, id, id, id)
			}
			fmt.Fprintf(&sb, "\tif fail_%s {\n\t\tanyFail = true\n\t\tif isPE && pe.In == %q && pe.Parameter == %q {\n\t\t\tnamed = true\n\t\t}\n\t\tif perr != nil && !isPE && strings.Contains(perr.Error(), %q) {\n\t\t\tnamed = true\n\t\t}\n\t}\n", id, pi.p.In, pi.p.Name, "'"+pi.p.Name+"'")
		}
		sb.WriteString("\tif anyFail {\n\t\tvrt.Reach(\"malformed\")\n\t\tvrt.Assert(perr != nil, \"Parse accepted a request with an absent required / repeated scalar / out-of-lexical-space parameter\")\n\t\tif perr != nil {\n\t\t\tvrt.Assert(named, \"the Parse error does not identify a failing parameter\")\n\t\t}\n\t\treturn\n\t}\n")
		sb.WriteString("\tvrt.Reach(\"wellformed\")\n\tvrt.Assert(perr == nil, \"Parse rejected a request whose declared parameters are all well-formed\")\n\tif perr != nil {\n\t\treturn\n\t}\n")
		for _, pi := range infos {
			if !pi.found {
				continue
			}
			id := pi.id
			ft := pi.ftype
			val := pi.field
			optional := false
			if o, in, okg := unwrapGeneric(ft); okg && isMaybe(o) {
				optional = true
				ft = in
				val = pi.field + ".Value"
			}
			isSlice := strings.HasPrefix(ft, "[]") || pi.p.IsArray
			msg := fmt.Sprintf("parameter %s: parsed value differs from the typed value of the supplied text", pi.p.Name)
			if optional {
				fmt.Fprintf(&sb, "\tvrt.Assert(%s.IsSet == has_%s, \"parameter %s: set although absent, or unset although supplied\")\n", pi.field, id, pi.p.Name)
			}
			fmt.Fprintf(&sb, "\tif has_%s {\n", id)
			if isSlice {
				_, eqA, _ := refParse(pi.p.Kind, "a_"+id, "ra_"+id, val+"[0]")
				_, eqB, _ := refParse(pi.p.Kind, "b_"+id, "rb_"+id, val+"[1]")
				fmt.Fprintf(&sb, "\t\tif two_%s {\n\t\t\tvrt.Assert(len(%s) == 2, \"parameter %s: wrong number of array items\")\n\t\t\tif len(%s) == 2 {\n\t\t\t\tvrt.Assert(%s, %q)\n\t\t\t\tvrt.Assert(%s, %q)\n\t\t\t}\n\t\t} else {\n\t\t\tvrt.Assert(len(%s) == 1, \"parameter %s: wrong number of array items\")\n\t\t\tif len(%s) == 1 {\n\t\t\t\tvrt.Assert(%s, %q)\n\t\t\t}\n\t\t}\n",
					id, val, pi.p.Name, val, eqA, msg, eqB, msg, val, pi.p.Name, val, eqA, msg)
			} else {
				_, eqA, _ := refParse(pi.p.Kind, "a_"+id, "ra_"+id, val)
				fmt.Fprintf(&sb, "\t\tvrt.Assert(%s, %q)\n", eqA, msg)
			}
			sb.WriteString("\t}\n")
		}
		sb.WriteString("}\n\n")
	}
	if n == 0 {
		return 0, nil
	}
	return n, os.WriteFile(filepath.Join(u.Dir, "zz_verif_c04.go"), []byte(sb.String()), 0o644)
}
