package main

import (
	"fmt"
	"go/ast"
	"os"
	"path/filepath"
	"regexp"
	"strings"
)

var reNorm = regexp.MustCompile(`[^a-z0-9]`)

func normName(s string) string { return reNorm.ReplaceAllString(strings.ToLower(s), "") }

// structFields lists (name, type text) of a generated struct type.
func (g *GenPkg) structFields(typeName string) [][2]string {
	ts := g.Types[typeName]
	if ts == nil {
		return nil
	}
	st, ok := ts.Type.(*ast.StructType)
	if !ok {
		return nil
	}
	var out [][2]string
	for _, f := range st.Fields.List {
		for _, n := range f.Names {
			out = append(out, [2]string{n.Name, exprText(f.Type)})
		}
		if len(f.Names) == 0 {
			out = append(out, [2]string{"", exprText(f.Type)})
		}
	}
	return out
}

// fieldFor finds the Go field goag derived for a spec parameter name.
func fieldFor(fields [][2]string, specName string) (string, string, bool) {
	for _, f := range fields {
		if normName(f[0]) == normName(specName) {
			return f[0], f[1], true
		}
	}
	return "", "", false
}

// refParse emits reference code: given string expression `seg`, declares
// <pfx>Valid bool and a comparison expression against Go expression `field`.
func refParse(kind, seg, pfx, field string) (decl string, equal string, ok bool) {
	switch kind {
	case "string":
		return fmt.Sprintf("\t%sValid := true\n", pfx), fmt.Sprintf("string(%s) == %s", field, seg), true
	case "int", "int64":
		return fmt.Sprintf("\t%sV, %sErr := strconv.ParseInt(%s, 10, 64)\n\t%sValid := %sErr == nil\n", pfx, pfx, seg, pfx, pfx), fmt.Sprintf("int64(%s) == %sV", field, pfx), true
	case "int32":
		return fmt.Sprintf("\t%sV, %sErr := strconv.ParseInt(%s, 10, 32)\n\t%sValid := %sErr == nil\n", pfx, pfx, seg, pfx, pfx), fmt.Sprintf("int64(%s) == %sV", field, pfx), true
	case "bool":
		return fmt.Sprintf("\t%sV, %sErr := strconv.ParseBool(%s)\n\t%sValid := %sErr == nil\n", pfx, pfx, seg, pfx, pfx), fmt.Sprintf("bool(%s) == %sV", field, pfx), true
	case "float64":
		return fmt.Sprintf("\t%sV, %sErr := strconv.ParseFloat(%s, 64)\n\t%sValid := %sErr == nil\n", pfx, pfx, seg, pfx, pfx), fmt.Sprintf("float64(%s) == %sV", field, pfx), true
	case "float32":
		return fmt.Sprintf("\t%sV, %sErr := strconv.ParseFloat(%s, 32)\n\t%sValid := %sErr == nil\n", pfx, pfx, seg, pfx, pfx), fmt.Sprintf("float32(%s) == float32(%sV)", field, pfx), true
	case "time":
		return fmt.Sprintf("\t%sV, %sErr := time.Parse(time.RFC3339Nano, %s)\n\t%sValid := %sErr == nil\n", pfx, pfx, seg, pfx, pfx), fmt.Sprintf("time.Time(%s).Equal(%sV)", field, pfx), true
	}
	return "", "", false
}

func genC05Harness(u *PkgUnit, minL int) (int, error) {
	s := u.Spec
	g := u.Gen
	var sb strings.Builder
	sb.WriteString("//go:build verif\n\npackage " + g.Name + "\n\n")
	sb.WriteString("import (\n\t\"context\"\n\t\"errors\"\n\t\"net/http\"\n\t\"net/url\"\n\t\"strconv\"\n\t\"strings\"\n\t\"time\"\n\n\t\"vscratch/vrt\"\n)\n\nvar _ = strings.HasPrefix\nvar _ = strconv.Itoa\nvar _ = time.RFC3339\nvar _ = errors.New\nvar _ context.Context\n\n")
	var mb strings.Builder
	emitMatchFuncs(&mb, s)
	// rename matcher funcs so that C03 and C05 harness files can coexist
	sb.WriteString(strings.ReplaceAll(mb.String(), "verifMatch", "verifC05Match"))

	L := pathBound(s, minL)
	fmt.Fprintf(&sb, "func VerifC05PathParams() {\n\tpath := vrt.String(\"path\", %d)\n\tmethod := vrt.String(\"method\", 8)\n\thit := 0\n", L)
	type opInfo struct {
		idx  int
		h    *GenHandler
		op   *OpRef
		tk   int
	}
	var infos []opInfo
	infos2ops := func(is []opInfo) []*OpRef {
		var out []*OpRef
		for _, i := range is {
			out = append(out, i.op)
		}
		return out
	}
	for k, t := range s.Tmpls {
		if nVars(t) == 0 {
			continue
		}
		for _, m := range methodOrder {
			op := t.Ops[strings.ToUpper(m)]
			if op == nil {
				continue
			}
			idx, h, ok := opHandler(u, op)
			if !ok || !h.HasParams {
				continue
			}
			infos = append(infos, opInfo{idx, h, op, k})
		}
	}
	if len(infos) == 0 {
		return 0, nil
	}
	parsed := map[int]bool{}
	for _, in := range infos {
		fmt.Fprintf(&sb, "\tvar p%d %sParams\n\tvar e%d error\n\t_ = p%d\n", in.idx, in.h.Base, in.idx, in.idx)
		parsed[in.idx] = true
	}
	emitAPISetup(&sb, u, func(i int, h *GenHandler) string {
		if parsed[i] {
			return fmt.Sprintf("\t\thit = %d\n\t\tp%d, e%d = r.Parse()\n", i, i, i)
		}
		return fmt.Sprintf("\t\thit = %d\n", i)
	})
	sb.WriteString("\thdr := http.Header{}\n\tquery := url.Values{}\n")
	emitAcceptAllSecurity(&sb, u)
	emitRequiredParams(&sb, infosOps(infos2ops(infos)))
	sb.WriteString("\tw := newVerifRec()\n\tu := &url.URL{Path: path}\n\tvrt.SetQuery(u, query)\n\tr := &http.Request{Method: method, URL: u, Header: hdr, Body: http.NoBody}\n\tvrt.Enter()\n\tapi.ServeHTTP(w, r)\n")
	n := 0
	for _, in := range infos {
		t := in.op.Tmpl
		fields := g.structFields(in.h.Base + "ParamsPath")
		fmt.Fprintf(&sb, "\tif hit == %d {\n\t\tvrt.Reach(\"dispatched:%s %s\")\n", in.idx, in.op.Method, t.Raw)
		vars := ""
		for i := 0; i < nVars(t); i++ {
			vars += fmt.Sprintf(", s%d", i)
		}
		fmt.Fprintf(&sb, "\t\tok%s := verifC05Match%d(path)\n\t\tif ok {\n", vars, in.tk)
		vi := 0
		var valids, names []string
		body := ""
		checks := ""
		for _, sg := range t.Segs {
			if !sg.IsVar {
				continue
			}
			seg := fmt.Sprintf("s%d", vi)
			pfx := fmt.Sprintf("r%d", vi)
			// declared parameter
			var prm *ParamRef
			for _, p := range in.op.Params {
				if p.In == "path" && p.Name == sg.Var {
					prm = p
				}
			}
			fname, _, okf := "", "", false
			if prm != nil {
				fname, _, okf = fieldFor(fields, sg.Var)
			}
			if prm == nil || !okf {
				body += fmt.Sprintf("\t\t\t_ = %s\n", seg)
				vi++
				continue
			}
			decl, equal, okk := refParse(prm.Kind, seg, pfx, fmt.Sprintf("p%d.Path.%s", in.idx, fname))
			if !okk {
				body += fmt.Sprintf("\t\t\t_ = %s\n", seg)
				vi++
				continue
			}
			body += strings.ReplaceAll(decl, "\t", "\t\t\t")
			body += fmt.Sprintf("\t\t\t%sOK := len(%s) > 0 && %sValid\n", pfx, seg, pfx)
			valids = append(valids, pfx+"OK")
			names = append(names, sg.Var)
			checks += fmt.Sprintf("\t\t\t\tvrt.Assert(%s, \"path parameter %s differs from the matched path segment\")\n", equal, sg.Var)
			vi++
		}
		sb.WriteString(body)
		if len(valids) > 0 {
			n++
			fmt.Fprintf(&sb, "\t\t\tpathErr, named, other := false, false, false\n\t\t\tif e%d != nil {\n\t\t\t\tvar pe ErrParseParam\n\t\t\t\tif errors.As(e%d, &pe) {\n\t\t\t\t\tif pe.In == \"path\" {\n\t\t\t\t\t\tpathErr = true\n", in.idx, in.idx)
			for i, v := range valids {
				fmt.Fprintf(&sb, "\t\t\t\t\t\tif !%s && pe.Parameter == %q {\n\t\t\t\t\t\t\tnamed = true\n\t\t\t\t\t\t}\n", v, names[i])
			}
			fmt.Fprintf(&sb, "\t\t\t\t\t} else {\n\t\t\t\t\t\tother = true\n\t\t\t\t\t}\n\t\t\t\t} else if strings.Contains(e%d.Error(), \"wrong path\") {\n\t\t\t\t\tpathErr = true\n\t\t\t\t} else {\n\t\t\t\t\tother = true\n\t\t\t\t}\n\t\t\t}\n", in.idx)
			fmt.Fprintf(&sb, "\t\t\tif %s {\n\t\t\t\tvrt.Assert(!pathErr, \"Parse failed on the path although every path segment is in its type's lexical space\")\n\t\t\t\tif e%d == nil {\n\t\t\t\t\tvrt.Reach(\"parsed-ok\")\n%s\t\t\t\t}\n\t\t\t} else {\n", strings.Join(valids, " && "), in.idx, strings.ReplaceAll(checks, "\t\t\t\t", "\t\t\t\t\t"))
			fmt.Fprintf(&sb, "\t\t\t\tvrt.Assert(e%d != nil, \"Parse succeeded although a path segment is empty or outside its type's lexical space\")\n", in.idx)
			sb.WriteString("\t\t\t\tif !other {\n\t\t\t\t\tvrt.Assert(named, \"Parse error does not name a failing path parameter\")\n\t\t\t\t}\n\t\t\t}\n")
		}
		sb.WriteString("\t\t}\n\t}\n")
	}
	sb.WriteString("}\n")
	if n == 0 {
		return 0, nil
	}
	return n, os.WriteFile(filepath.Join(u.Dir, "zz_verif_c05.go"), []byte(sb.String()), 0o644)
}

func infosOps(ops []*OpRef) []*OpRef { return ops }

// validLexeme gives one value in the lexical space of a primitive kind.
func validLexeme(kind string) (string, bool) {
	switch kind {
	case "string":
		return "s", true
	case "int", "int32", "int64":
		return "1", true
	case "bool":
		return "true", true
	case "float32", "float64":
		return "1.5", true
	case "time":
		return "2020-01-02T03:04:05Z", true
	}
	return "", false
}

// emitRequiredParams gives every required query/header parameter of the given
// operations one valid value, so that Parse() reaches the path block.
func emitRequiredParams(sb *strings.Builder, ops []*OpRef) {
	seen := map[string]bool{}
	for _, op := range ops {
		for _, p := range op.Params {
			if !p.Required || (p.In != "query" && p.In != "header") {
				continue
			}
			lex, ok := validLexeme(p.Kind)
			if !ok {
				continue
			}
			key := p.In + ":" + p.Name
			if seen[key] {
				continue
			}
			seen[key] = true
			if p.In == "query" {
				fmt.Fprintf(sb, "\tquery[%q] = []string{%q}\n", p.Name, lex)
			} else {
				fmt.Fprintf(sb, "\thdr[%q] = []string{%q}\n", canonHeader(p.Name), lex)
			}
		}
	}
}
