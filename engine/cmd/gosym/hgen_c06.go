package main

import (
	"bytes"
	"fmt"
	"go/ast"
	"go/printer"
	"os"
	"path/filepath"
	"regexp"
	"sort"
	"strings"
)

// codec types: named struct types of the generated package having both
// MarshalJSON and UnmarshalJSON.
func (g *GenPkg) codecTypes() []string {
	var out []string
	for t, ms := range g.Methods {
		if ms["MarshalJSON"] != nil && ms["UnmarshalJSON"] != nil {
			if ts := g.Types[t]; ts != nil && ts.TypeParams == nil && !g.usesCustomTypes(t, map[string]bool{}) {
				out = append(out, t)
			}
		}
	}
	sort.Strings(out)
	return out
}

func (g *GenPkg) funcSource(fd *ast.FuncDecl) string {
	if fd == nil {
		return ""
	}
	var buf bytes.Buffer
	printer.Fprint(&buf, g.Fset, fd)
	return buf.String()
}

var reMapKey = regexp.MustCompile(`m\["([^"\\]*)"\]`)

// declaredJSONNames: property names the decoder of T looks up (incl. embedded members).
func (g *GenPkg) declaredJSONNames(t string, seen map[string]bool) []string {
	if seen[t] {
		return nil
	}
	seen[t] = true
	var out []string
	if ms := g.Methods[t]; ms != nil {
		for _, fn := range []string{"unmarshalJSONInnerBody", "UnmarshalJSON"} {
			for _, m := range reMapKey.FindAllStringSubmatch(g.funcSource(ms[fn]), -1) {
				out = append(out, m[1])
			}
		}
	}
	for _, f := range g.structFields(t) {
		if f[0] == "" { // embedded
			out = append(out, g.declaredJSONNames(strings.TrimPrefix(f[1], "*"), seen)...)
		}
	}
	return out
}

// unwrap "Maybe[X]" / "pkg.Maybe[X]" etc.
func unwrapGeneric(t string) (outer, inner string, ok bool) {
	i := strings.Index(t, "[")
	if i <= 0 || !strings.HasSuffix(t, "]") || strings.HasPrefix(t, "[]") || strings.HasPrefix(t, "map[") {
		return "", "", false
	}
	return t[:i], t[i+1 : len(t)-1], true
}

func isMaybe(outer string) bool {
	return outer == "Maybe" || strings.HasSuffix(outer, ".Maybe")
}
func isNullable(outer string) bool {
	return outer == "Nullable" || strings.HasSuffix(outer, ".Nullable")
}

// isOneOf: every field is Maybe[...] and a constructor New<T><Field> exists.
func (g *GenPkg) isOneOf(t string) bool {
	fs := g.structFields(t)
	if len(fs) < 2 {
		return false
	}
	for _, f := range fs {
		o, _, ok := unwrapGeneric(f[1])
		if !ok || !isMaybe(o) || f[0] == "" {
			return false
		}
		if g.Funcs["New"+t+f[0]] == nil {
			return false
		}
	}
	return true
}

// emitWF writes verifWF_<T>(v T) bool: the documented validity predicate of a
// value (DESIGN 11.5): exactly one oneOf variant set; additional-property keys
// differ from declared names. Recurses through fields of generated types.
func (g *GenPkg) emitWF(sb *strings.Builder, types []string, spec *SpecRef) {
	known := map[string]bool{}
	for _, t := range types {
		known[t] = true
	}
	var expr func(texpr, val string, depth int) string
	expr = func(texpr, val string, depth int) string {
		if depth > 4 {
			return ""
		}
		if o, in, ok := unwrapGeneric(texpr); ok {
			if isMaybe(o) || isNullable(o) {
				inner := expr(in, val+".Value", depth+1)
				if inner == "" {
					return ""
				}
				return fmt.Sprintf("\tif %s.IsSet {\n%s\t}\n", val, inner)
			}
			return ""
		}
		if strings.HasPrefix(texpr, "[]") {
			inner := expr(texpr[2:], "e", depth+1)
			if inner == "" {
				return ""
			}
			return fmt.Sprintf("\tfor _, e := range %s {\n%s\t}\n", val, inner)
		}
		if strings.HasPrefix(texpr, "map[string]") {
			inner := expr(texpr[len("map[string]"):], "e", depth+1)
			if inner == "" {
				return ""
			}
			return fmt.Sprintf("\tfor _, e := range %s {\n%s\t}\n", val, inner)
		}
		if known[texpr] {
			return fmt.Sprintf("\tif !verifWF_%s(%s) {\n\t\treturn false\n\t}\n", texpr, val)
		}
		return ""
	}
	for _, t := range types {
		fmt.Fprintf(sb, "func verifWF_%s(v %s) bool {\n", t, t)
		fs := g.structFields(t)
		if ts := g.Types[t]; ts != nil {
			if _, isStruct := ts.Type.(*ast.StructType); !isStruct {
				sb.WriteString(expr(exprText(ts.Type), "v", 0))
			}
		}
		if g.isOneOf(t) {
			sb.WriteString("\tn := 0\n")
			for _, f := range fs {
				fmt.Fprintf(sb, "\tif v.%s.IsSet {\n\t\tn++\n\t}\n", f[0])
			}
			sb.WriteString("\tif n != 1 {\n\t\treturn false\n\t}\n")
			sb.WriteString(g.discriminatorWF(t, fs, spec))
		}
		for _, f := range fs {
			name := f[0]
			texpr := f[1]
			if name == "" { // embedded member
				name = strings.TrimPrefix(texpr, "*")
				if i := strings.LastIndex(name, "."); i >= 0 {
					name = name[i+1:]
				}
			}
			if f[0] == "" && !strings.HasPrefix(texpr, "*") {
				// an embedded allOf member with additional properties: in the one JSON object
				// they share, a key cannot be both that member's extra and a declared
				// property of the composition
				for _, ef := range g.structFields(name) {
					if ef[0] == "AdditionalProperties" && strings.HasPrefix(ef[1], "map[string]") {
						if names := g.declaredJSONNames(t, map[string]bool{}); len(names) > 0 {
							fmt.Fprintf(sb, "\tfor k := range v.%s.AdditionalProperties {\n", name)
							for _, n := range uniqStrings(names) {
								fmt.Fprintf(sb, "\t\tif k == %q {\n\t\t\treturn false\n\t\t}\n", n)
							}
							sb.WriteString("\t}\n")
						}
					}
				}
			}
			if name == "AdditionalProperties" && strings.HasPrefix(texpr, "map[string]") {
				names := g.declaredJSONNames(t, map[string]bool{})
				if len(names) > 0 {
					sb.WriteString("\tfor k := range v.AdditionalProperties {\n")
					for _, n := range uniqStrings(names) {
						fmt.Fprintf(sb, "\t\tif k == %q {\n\t\t\treturn false\n\t\t}\n", n)
					}
					sb.WriteString("\t}\n")
				}
			}
			sb.WriteString(expr(texpr, "v."+name, 0))
		}
		sb.WriteString("\treturn true\n}\n\n")
	}
}

func uniqStrings(ss []string) []string {
	m := map[string]bool{}
	var out []string
	for _, s := range ss {
		if !m[s] {
			m[s] = true
			out = append(out, s)
		}
	}
	sort.Strings(out)
	return out
}

// genC06Harness: encode -> valid JSON -> decode -> equal, one harness per codec type.
func genC06Harness(u *PkgUnit) (int, error) {
	g := u.Gen
	types := g.codecTypes()
	if len(types) == 0 {
		return 0, nil
	}
	var sb strings.Builder
	sb.WriteString("//go:build verif\n\npackage " + g.Name + "\n\nimport (\n\t\"encoding/json\"\n\n\t\"vscratch/vrt\"\n)\n\nvar _ = json.Valid\n\n")
	g.emitWF(&sb, types, u.Spec)
	for _, t := range types {
		known := ""
		if g.embeddedSwallows(t) {
			known = "\tvrt.Known(\"C06-allof-member-with-additional-properties\", true)\n"
		}
		fmt.Fprintf(&sb, `func VerifC06_%s() {
	var v %s
	vrt.Arbitrary(&v, "v")
	vrt.Assume(verifWF_%s(v))
`+known+`
	bs, err := v.MarshalJSON()
	vrt.Assert(err == nil, "MarshalJSON failed on a value of its own type")
	if err != nil {
		return
	}
	_, ok := vrt.ParseJSON(bs)
	vrt.Assert(ok, "MarshalJSON output is not syntactically valid JSON")
	if !ok {
		return
	}
	vrt.Reach("encoded")
	var w %s
	derr := json.Unmarshal(bs, &w)
	vrt.Assert(derr == nil, "decoding the encoder's own output failed")
	if derr != nil {
		return
	}
	vrt.Assert(vrt.Equal(v, w), "decode(encode(v)) differs from v")
}

`, t, t, t, t)
	}
	return len(types), os.WriteFile(filepath.Join(u.Dir, "zz_verif_c06.go"), []byte(sb.String()), 0o644)
}

var reQualified = regexp.MustCompile(`([A-Za-z_][A-Za-z0-9_]*)\.([A-Za-z_][A-Za-z0-9_]*)`)

// usesCustomTypes: does the type (transitively) hold values of user-written
// types (x-goag-go-type)? Their conversions are user code, outside the claim.
func (g *GenPkg) usesCustomTypes(t string, seen map[string]bool) bool {
	if seen[t] {
		return false
	}
	seen[t] = true
	ts := g.Types[t]
	if ts == nil {
		return false
	}
	var texts []string
	if _, ok := ts.Type.(*ast.StructType); ok {
		for _, f := range g.structFields(t) {
			texts = append(texts, f[1])
		}
	} else {
		texts = append(texts, exprText(ts.Type))
	}
	for _, tx := range texts {
		for _, m := range reQualified.FindAllStringSubmatch(tx, -1) {
			q := m[1] + "." + m[2]
			if q == "time.Time" || q == "json.RawMessage" || m[2] == "Maybe" || m[2] == "Nullable" {
				continue
			}
			return true
		}
		for _, id := range regexp.MustCompile(`[A-Za-z_][A-Za-z0-9_]*`).FindAllString(tx, -1) {
			if g.Types[id] != nil && g.usesCustomTypes(id, seen) {
				return true
			}
		}
	}
	return false
}

// discriminatorWF: for a discriminated oneOf, a variant value carries one of the
// discriminator values that select it (explicit mapping keys or its schema name).
func (g *GenPkg) discriminatorWF(t string, fs [][2]string, spec *SpecRef) string {
	if spec == nil {
		return ""
	}
	schemas := asM(asM(spec.Doc["components"])["schemas"])
	var sch M
	for name, raw := range schemas {
		if normName(name) == normName(t) {
			sch = asM(raw)
		}
	}
	disc := asM(sch["discriminator"])
	pn := asS(disc["propertyName"])
	if pn == "" {
		return ""
	}
	mapping := asM(disc["mapping"])
	out := ""
	for _, f := range fs {
		_, inner, ok := unwrapGeneric(f[1])
		if !ok {
			continue
		}
		v := inner
		if i := strings.LastIndex(v, "."); i >= 0 {
			v = v[i+1:]
		}
		var allowed []string
		for k, ref := range mapping {
			r := asS(ref)
			if i := strings.LastIndex(r, "/"); i >= 0 {
				r = r[i+1:]
			}
			if normName(r) == normName(v) {
				allowed = append(allowed, k)
			}
		}
		for name := range schemas {
			if normName(name) == normName(v) {
				allowed = append(allowed, name)
			}
		}
		allowed = uniqStrings(allowed)
		fname, ftype, okf := fieldFor(g.structFields(v), pn)
		if !okf || len(allowed) == 0 {
			continue
		}
		val := fmt.Sprintf("v.%s.Value.%s", f[0], fname)
		pre := ""
		if o, _, isG := unwrapGeneric(ftype); isG && (isMaybe(o) || isNullable(o)) {
			pre = fmt.Sprintf("\t\tif !%s.IsSet {\n\t\t\treturn false\n\t\t}\n", val)
			val += ".Value"
		}
		var conds []string
		for _, a := range allowed {
			conds = append(conds, fmt.Sprintf("string(%s) == %q", val, a))
		}
		out += fmt.Sprintf("\tif v.%s.IsSet {\n%s\t\tif !(%s) {\n\t\t\treturn false\n\t\t}\n\t}\n", f[0], pre, strings.Join(conds, " || "))
	}
	return out
}

// embeddedSwallows: T embeds (allOf) a member that has additionalProperties and
// T has further members/properties: the member's decoder then also collects
// its siblings' keys as additional properties (recorded known finding).
func (g *GenPkg) embeddedSwallows(t string) bool {
	fs := g.structFields(t)
	if len(fs) < 2 {
		return false
	}
	for _, f := range fs {
		if f[0] != "" {
			continue
		}
		e := strings.TrimPrefix(f[1], "*")
		for _, ef := range g.structFields(e) {
			if ef[0] == "AdditionalProperties" {
				return true
			}
		}
	}
	return false
}
