package main

import (
	"fmt"
	"os"
	"path/filepath"
	"sort"
	"strings"
)

// Structural validator emitted from the spec's schema tree (independent of goag
// and of kin-openapi): verifSchema_<Name>(j vrt.JSON, strict bool) bool.
// strict: an object may only carry declared names (or any name when the schema
// has additionalProperties) - what C07 demands of encoder output. Non-strict:
// unknown names are tolerated (JSON Schema's default), used for C08 inputs.

type valEmitter struct {
	spec *SpecRef
	n    int
	sb   *strings.Builder
}

func schemaFuncName(name string) string {
	return "verifSchema_" + reNonAlnum.ReplaceAllString(name, "_")
}

func refName(ref string) string {
	if i := strings.LastIndex(ref, "/"); i >= 0 {
		return ref[i+1:]
	}
	return ref
}

func (e *valEmitter) fresh(p string) string {
	e.n++
	return fmt.Sprintf("%s%d", p, e.n)
}

// objectMembers flattens allOf object members into (props, required, additional).
func (e *valEmitter) collectObject(sch M, props map[string]M, req map[string]bool, addl *interface{}) {
	sch = e.spec.Resolve(sch)
	for _, m := range asL(sch["allOf"]) {
		e.collectObject(asM(m), props, req, addl)
	}
	for k, v := range asM(sch["properties"]) {
		props[k] = asM(v)
	}
	for _, r := range asL(sch["required"]) {
		req[asS(r)] = true
	}
	if ap, ok := sch["additionalProperties"]; ok {
		if b, isB := ap.(bool); !isB || b {
			*addl = ap
		}
	}
}

// emit writes statements that `return false` when JSON expression j violates sch.
func (e *valEmitter) emit(sch M, j string, ind string, depth int) {
	w := func(format string, a ...interface{}) { fmt.Fprintf(e.sb, ind+format+"\n", a...) }
	if sch == nil {
		return
	}
	if ref, ok := sch["$ref"].(string); ok && strings.HasPrefix(ref, "#/components/schemas/") {
		w("if !%s(%s, strict) {", schemaFuncName(refName(ref)), j)
		w("\treturn false")
		w("}")
		return
	}
	sch = e.spec.Resolve(sch)
	if depth > 6 {
		return
	}
	nullable, _ := sch["nullable"].(bool)
	body := func(ind2 string) {
		e2 := *e
		_ = e2
		w2 := func(format string, a ...interface{}) { fmt.Fprintf(e.sb, ind2+format+"\n", a...) }
		if one := asL(sch["oneOf"]); len(one) > 0 && asS(asM(sch["discriminator"])["propertyName"]) != "" {
			// discriminated: the discriminator value selects the variant
			disc := asM(sch["discriminator"])
			pn := asS(disc["propertyName"])
			dv := e.fresh("vd")
			w2("if %s.Kind() != 5 {", j)
			w2("\treturn false")
			w2("}")
			w2("%s, %sok := %s.Get(%q)", dv, dv, j, pn)
			w2("if !%sok || %s.Kind() != 3 {", dv, dv)
			w2("\treturn false")
			w2("}")
			w2("switch %s.Str() {", dv)
			keys := map[string]M{}
			for k, ref := range asM(disc["mapping"]) {
				keys[k] = M{"$ref": ref}
			}
			for _, alt := range one {
				if r, ok := asM(alt)["$ref"].(string); ok {
					if _, dup := keys[refName(r)]; !dup {
						keys[refName(r)] = asM(alt)
					}
				}
			}
			var ks []string
			for k := range keys {
				ks = append(ks, k)
			}
			sort.Strings(ks)
			for _, k := range ks {
				w2("case %q:", k)
				e.emit(keys[k], j, ind2+"\t", depth+1)
			}
			w2("default:")
			w2("\treturn false")
			w2("}")
			return
		}
		if one := asL(sch["oneOf"]); len(one) > 0 {
			cnt := e.fresh("vcnt")
			w2("%s := 0", cnt)
			for _, alt := range one {
				fn := e.fresh("valt")
				w2("%s := func() bool {", fn)
				e.emit(asM(alt), j, ind2+"\t", depth+1)
				w2("\treturn true")
				w2("}")
				w2("if %s() {", fn)
				w2("\t%s++", cnt)
				w2("}")
			}
			w2("if %s != 1 {", cnt)
			w2("\treturn false")
			w2("}")
			return
		}
		typ := asS(sch["type"])
		if typ == "" && (sch["properties"] != nil || sch["allOf"] != nil) {
			typ = "object"
		}
		switch typ {
		case "object":
			props := map[string]M{}
			req := map[string]bool{}
			var addl interface{}
			e.collectObject(sch, props, req, &addl)
			w2("if %s.Kind() != 5 {", j)
			w2("\treturn false")
			w2("}")
			var rn []string
			for r := range req {
				rn = append(rn, r)
			}
			sort.Strings(rn)
			for _, r := range rn {
				w2("if _, ok := %s.Get(%q); !ok {", j, r)
				w2("\treturn false")
				w2("}")
			}
			var pn []string
			for p := range props {
				pn = append(pn, p)
			}
			sort.Strings(pn)
			i := e.fresh("vi")
			m := e.fresh("vm")
			w2("for %s := 0; %s < %s.Len(); %s++ {", i, i, j, i)
			w2("\t%s := %s.Index(%s)", m, j, i)
			w2("\t_ = %s", m)
			w2("\tswitch %s.Key(%s) {", j, i)
			for _, p := range pn {
				w2("\tcase %q:", p)
				e.emit(props[p], m, ind2+"\t\t", depth+1)
			}
			w2("\tdefault:")
			switch a := addl.(type) {
			case nil:
				w2("\t\tif strict {")
				w2("\t\t\treturn false")
				w2("\t\t}")
			case M:
				e.emit(a, m, ind2+"\t\t", depth+1)
			}
			w2("\t}")
			w2("}")
		case "array":
			w2("if %s.Kind() != 4 {", j)
			w2("\treturn false")
			w2("}")
			i := e.fresh("vi")
			el := e.fresh("vel")
			w2("for %s := 0; %s < %s.Len(); %s++ {", i, i, j, i)
			w2("\t%s := %s.Index(%s)", el, j, i)
			w2("\t_ = %s", el)
			e.emit(asM(sch["items"]), el, ind2+"\t", depth+1)
			w2("}")
		case "string":
			w2("if %s.Kind() != 3 {", j)
			w2("\treturn false")
			w2("}")
			if asS(sch["format"]) == "date-time" {
				w2("if !%s.IsDateTime() {", j)
				w2("\treturn false")
				w2("}")
			}
		case "integer":
			w2("if %s.Kind() != 2 || !%s.IsInt() {", j, j)
			w2("\treturn false")
			w2("}")
			if asS(sch["format"]) == "int32" {
				w2("if %s.Int() < -2147483648 || %s.Int() > 2147483647 {", j, j)
				w2("\treturn false")
				w2("}")
			}
		case "number":
			w2("if %s.Kind() != 2 {", j)
			w2("\treturn false")
			w2("}")
			if asS(sch["format"]) == "float" {
				w2("if !%s.IsFloat32() {", j)
				w2("\treturn false")
				w2("}")
			}
		case "boolean":
			w2("if %s.Kind() != 1 {", j)
			w2("\treturn false")
			w2("}")
		}
	}
	if nullable {
		w("if %s.Kind() != 0 {", j)
		body(ind + "\t")
		w("}")
	} else {
		body(ind)
	}
}

// emitValidators writes one function per component schema.
func emitValidators(sb *strings.Builder, spec *SpecRef) []string {
	schemas := asM(asM(spec.Doc["components"])["schemas"])
	var names []string
	for n := range schemas {
		names = append(names, n)
	}
	sort.Strings(names)
	e := &valEmitter{spec: spec, sb: sb}
	for _, n := range names {
		fmt.Fprintf(sb, "func %s(j vrt.JSON, strict bool) bool {\n", schemaFuncName(n))
		sch := asM(schemas[n])
		// a component that is itself a $ref alias
		e.emit(sch, "j", "\t", 0)
		sb.WriteString("\treturn true\n}\n\n")
	}
	return names
}

// schemaForType maps a generated Go type to its component schema name.
func schemaForType(spec *SpecRef, goType string) (string, bool) {
	schemas := asM(asM(spec.Doc["components"])["schemas"])
	for n := range schemas {
		if n == goType {
			return n, true
		}
	}
	for n := range schemas {
		if normName(n) == normName(goType) {
			return n, true
		}
	}
	return "", false
}

// optionalPresence: checks that an optional property is present iff its field is set.
func (g *GenPkg) emitPresenceChecks(sb *strings.Builder, spec *SpecRef, t, schema string) {
	sch := spec.Resolve(asM(asM(asM(spec.Doc["components"])["schemas"])[schema]))
	if sch == nil {
		return
	}
	e := &valEmitter{spec: spec}
	props := map[string]M{}
	req := map[string]bool{}
	var addl interface{}
	e.collectObject(sch, props, req, &addl)
	var all [][2]string
	var walk func(tn string, prefix string, seen map[string]bool)
	walk = func(tn string, prefix string, seen map[string]bool) {
		if seen[tn] {
			return
		}
		seen[tn] = true
		for _, f := range g.structFields(tn) {
			if f[0] == "" {
				en := strings.TrimPrefix(f[1], "*")
				walk(en, prefix+en+".", seen)
				continue
			}
			all = append(all, [2]string{prefix + f[0], f[1]})
		}
	}
	walk(t, "", map[string]bool{})
	var pn []string
	for p := range props {
		pn = append(pn, p)
	}
	sort.Strings(pn)
	for _, p := range pn {
		if req[p] {
			continue
		}
		for _, f := range all {
			last := f[0]
			if i := strings.LastIndex(last, "."); i >= 0 {
				last = last[i+1:]
			}
			if normName(last) != normName(p) {
				continue
			}
			if o, _, ok := unwrapGeneric(f[1]); ok && isMaybe(o) {
				fmt.Fprintf(sb, "\t{\n\t\t_, has := doc.Get(%q)\n\t\tvrt.Assert(has == v.%s.IsSet, \"optional property %s is present although unset, or omitted although set\")\n\t}\n", p, f[0], p)
			}
			break
		}
	}
}

func genC07Harness(u *PkgUnit) (int, error) {
	g := u.Gen
	if u.Spec == nil {
		return 0, nil
	}
	types := g.codecTypes()
	var sb strings.Builder
	sb.WriteString("//go:build verif\n\npackage " + g.Name + "\n\nimport (\n\t\"vscratch/vrt\"\n)\n\n")
	var vb strings.Builder
	emitValidators(&vb, u.Spec)
	sb.WriteString(strings.ReplaceAll(vb.String(), "verifSchema_", "verifC07Schema_"))
	// WF helpers are shared with C06 (same package): emit under another name
	var wf strings.Builder
	g.emitWF(&wf, types, u.Spec)
	sb.WriteString(strings.ReplaceAll(wf.String(), "verifWF_", "verifC07WF_"))
	n := 0
	for _, t := range types {
		sn, ok := schemaForType(u.Spec, t)
		if !ok {
			continue
		}
		n++
		fmt.Fprintf(&sb, "func VerifC07_%s() {\n\tvar v %s\n\tvrt.Arbitrary(&v, \"v\")\n\tvrt.Assume(verifC07WF_%s(v))\n", t, t, t)
		if g.embeddedSwallows(t) {
			sb.WriteString("\tvrt.Known(\"C07-allof-member-with-additional-properties\", true)\n")
		}
		sb.WriteString("\tbs, err := v.MarshalJSON()\n\tvrt.Assert(err == nil, \"MarshalJSON failed on a value of its own type\")\n\tif err != nil {\n\t\treturn\n\t}\n\tdoc, ok := vrt.ParseJSON(bs)\n\tvrt.Assert(ok, \"encoded output is not JSON, so it conforms to no schema\")\n\tif !ok {\n\t\treturn\n\t}\n\tvrt.Reach(\"encoded\")\n")
		fmt.Fprintf(&sb, "\tvrt.Assert(%s(doc, true), \"encoded JSON does not conform to schema %s\")\n", strings.ReplaceAll(schemaFuncName(sn), "verifSchema_", "verifC07Schema_"), sn)
		g.emitPresenceChecks(&sb, u.Spec, t, sn)
		sb.WriteString("}\n\n")
	}
	if n == 0 {
		return 0, nil
	}
	return n, os.WriteFile(filepath.Join(u.Dir, "zz_verif_c07.go"), []byte(sb.String()), 0o644)
}
