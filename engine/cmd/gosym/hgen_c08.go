package main

import (
	"fmt"
	"os"
	"path/filepath"
	"sort"
	"strings"
)

// Document builder emitted from the schema (independent generator of inputs for
// the decoder): verifC08Doc_<Name>(pfx string) string.

type docEmitter struct {
	spec *SpecRef
	sb   *strings.Builder
	n    int
}

func (e *docEmitter) fresh(p string) string {
	e.n++
	return fmt.Sprintf("%s%d", p, e.n)
}

func docFuncName(name string) string { return "verifC08Doc_" + reNonAlnum.ReplaceAllString(name, "_") }

// kindMask: the JSON kinds (bits of vrt.JSONValue) valid for a primitive schema.
func kindMask(sch M) (mask, bits int) {
	nullable, _ := sch["nullable"].(bool)
	switch asS(sch["type"]) {
	case "string":
		mask = 1 << 4
	case "integer":
		mask = 1 << 2
		if asS(sch["format"]) == "int32" {
			bits = 32
		}
	case "number":
		mask = 1<<2 | 1<<3
		if asS(sch["format"]) == "float" {
			bits = -32
		}
	case "boolean":
		mask = 1 << 1
	default:
		mask = 0x7f // any
	}
	if nullable {
		mask |= 1
	}
	return
}

// emitValue writes statements assigning to `out` the text of a JSON value for
// schema sch. free=true: the value is unconstrained (any kind, objects with
// their own deviation); free=false: a VALID value (right kinds, required
// members present), still symbolic inside its kind.
func (e *docEmitter) emitValue(sch M, out, name, ind string, depth int, free bool) {
	w := func(format string, a ...interface{}) { fmt.Fprintf(e.sb, ind+format+"\n", a...) }
	if ref, ok := sch["$ref"].(string); ok && strings.HasPrefix(ref, "#/components/schemas/") && depth < 2 {
		target := e.spec.Resolve(sch)
		if asS(target["type"]) == "object" || target["properties"] != nil || target["allOf"] != nil || target["oneOf"] != nil || asS(target["type"]) == "array" {
			if free {
				w("if vrt.Bool(%s + \"_scalar\") {", name)
				w("\t%s = vrt.JSONAny(%s)", out, name)
				w("} else {")
				w("\t%s = %s(%s, true)", out, docFuncName(refName(ref)), name)
				w("}")
			} else {
				w("%s = %s(%s, false)", out, docFuncName(refName(ref)), name)
			}
			return
		}
	}
	sch = e.spec.Resolve(sch)
	typ := asS(sch["type"])
	if typ == "" && (sch["properties"] != nil || sch["allOf"] != nil) {
		typ = "object"
	}
	switch {
	case typ == "object" && depth < 2:
		if free {
			w("if vrt.Bool(%s + \"_scalar\") {", name)
			w("\t%s = vrt.JSONAny(%s)", out, name)
			w("} else {")
			e.emitObject(sch, out, name, ind+"\t", depth+1, "true")
			w("}")
		} else {
			e.emitObject(sch, out, name, ind, depth+1, "false")
		}
	case typ == "array" && depth < 2:
		el := e.fresh("el")
		if free {
			w("switch vrt.Choose(%s+\"_len\", 3) {", name)
			w("case 0:")
			w("\t%s = vrt.JSONAny(%s)", out, name)
		} else {
			w("switch 1 + vrt.Choose(%s+\"_len\", 2) {", name)
		}
		w("case 1:")
		w("\t%s = \"[]\"", out)
		w("default:")
		w("\tvar %s string", el)
		e.emitValue(asM(sch["items"]), el, name+"+\"_0\"", ind+"\t", depth+1, free)
		w("\t%s = \"[\" + %s + \"]\"", out, el)
		w("}")
	case typ == "string" && asS(sch["format"]) == "date-time":
		if free {
			w("if vrt.Bool(%s + \"_time\") {", name)
			w("\t%s = vrt.JSONString(vrt.Time(%s + \"_t\").Format(time.RFC3339Nano))", out, name)
			w("} else {")
			w("\t%s = vrt.JSONAny(%s)", out, name)
			w("}")
		} else if n, _ := sch["nullable"].(bool); n {
			w("if vrt.Bool(%s + \"_null\") {", name)
			w("\t%s = \"null\"", out)
			w("} else {")
			w("\t%s = vrt.JSONString(vrt.Time(%s + \"_t\").Format(time.RFC3339Nano))", out, name)
			w("}")
		} else {
			w("%s = vrt.JSONString(vrt.Time(%s + \"_t\").Format(time.RFC3339Nano))", out, name)
		}
	default:
		if free {
			w("%s = vrt.JSONAny(%s)", out, name)
		} else {
			mask, bits := kindMask(sch)
			if typ == "object" || typ == "array" {
				// beyond the nesting bound: the empty object / array
				mask = 1 << 6
				if typ == "array" {
					mask = 1 << 5
				}
				if n, _ := sch["nullable"].(bool); n {
					mask |= 1
				}
			}
			w("%s = vrt.JSONValue(%s, %d, %d)", out, name, mask, bits)
		}
	}
}

// emitObject: an object document for sch. freeExpr (a Go bool expression):
// when true ONE designated property may deviate arbitrarily (be absent or of
// any JSON kind); every other declared property is valid, required ones
// present, optional ones all present or all absent.
func (e *docEmitter) emitObject(sch M, out, name, ind string, depth int, freeExpr string) {
	w := func(format string, a ...interface{}) { fmt.Fprintf(e.sb, ind+format+"\n", a...) }
	ve := &valEmitter{spec: e.spec}
	props := map[string]M{}
	req := map[string]bool{}
	var addl interface{}
	ve.collectObject(sch, props, req, &addl)
	var pn []string
	for p := range props {
		pn = append(pn, p)
	}
	sort.Strings(pn)
	sep := e.fresh("sep")
	dev := e.fresh("dev")
	opt := e.fresh("opt")
	w("%s = \"{\"", out)
	w("%s := \"\"", sep)
	w("%s := %d", dev, len(pn))
	w("if %s {", freeExpr)
	w("\t%s = vrt.Choose(%s+\"_deviant\", %d)", dev, name, len(pn)+1)
	w("}")
	w("%s := vrt.Bool(%s + \"_optionals_present\")", opt, name)
	w("_ = %s", opt)
	w("_ = %s", dev)
	for i, p := range pn {
		mv := e.fresh("mv")
		w("if %s == %d {", dev, i)
		w("\tif vrt.Bool(%s + %q) {", name, "_has_"+p)
		w("\t\tvar %s string", mv)
		e.emitValue(props[p], mv, name+fmt.Sprintf("+%q", "_"+p), ind+"\t\t", depth, true)
		w("\t\t%s += %s + %q + %s", out, sep, jsonQuoteGo(p)+":", mv)
		w("\t\t%s = \",\"", sep)
		w("\t}")
		if req[p] {
			w("} else {")
		} else {
			w("} else if %s {", opt)
		}
		w("\tvar %s string", mv)
		e.emitValue(props[p], mv, name+fmt.Sprintf("+%q", "_"+p), ind+"\t", depth, false)
		w("\t%s += %s + %q + %s", out, sep, jsonQuoteGo(p)+":", mv)
		w("\t%s = \",\"", sep)
		w("}")
	}
	if addl != nil {
		k := e.fresh("xk")
		mv := e.fresh("xv")
		w("if vrt.Bool(%s + \"_extra\") {", name)
		w("\t%s := vrt.String(%s+\"_extra_key\", 4)", k, name)
		for _, p := range pn {
			w("\tvrt.Assume(%s != %q)", k, p)
		}
		w("\tvar %s string", mv)
		if am, ok := addl.(M); ok {
			e.emitValue(am, mv, name+"+\"_extra_val\"", ind+"\t", depth, false)
		} else {
			w("\t%s = vrt.JSONAny(%s + \"_extra_val\")", mv, name)
		}
		w("\t%s += %s + vrt.JSONString(%s) + \":\" + %s", out, sep, k, mv)
		w("\t%s = \",\"", sep)
		w("}")
	}
	w("_ = %s", sep)
	w("%s += \"}\"", out)
}

func jsonQuoteGo(s string) string {
	return `"` + strings.ReplaceAll(strings.ReplaceAll(s, `\`, `\\`), `"`, `\"`) + `"`
}

func emitDocBuilders(sb *strings.Builder, spec *SpecRef) {
	schemas := asM(asM(spec.Doc["components"])["schemas"])
	var names []string
	for n := range schemas {
		names = append(names, n)
	}
	sort.Strings(names)
	e := &docEmitter{spec: spec, sb: sb}
	for _, n := range names {
		fmt.Fprintf(sb, "func %s(name string, free bool) string {\n\tvar out string\n\t_ = free\n", docFuncName(n))
		sch := spec.Resolve(asM(schemas[n]))
		typ := asS(sch["type"])
		if typ == "" && (sch["properties"] != nil || sch["allOf"] != nil) {
			typ = "object"
		}
		switch {
		case len(asL(sch["oneOf"])) > 0:
			alts := asL(sch["oneOf"])
			fmt.Fprintf(sb, "\tswitch vrt.Choose(name+\"_variant\", %d) {\n", len(alts))
			for i, a := range alts {
				fmt.Fprintf(sb, "\tcase %d:\n", i)
				e.emitValue(asM(a), "out", fmt.Sprintf("name+\"_v%d\"", i), "\t\t", 1, false)
			}
			sb.WriteString("\t}\n")
		case typ == "object":
			e.emitObject(sch, "out", "name", "\t", 1, "free")
		default:
			e.emitValue(sch, "out", "name", "\t", 1, false)
		}
		sb.WriteString("\treturn out\n}\n\n")
	}
}

func schemaKindCheck(spec *SpecRef, sch M, j string) (cond string, ok bool) {
	sch = spec.Resolve(sch)
	typ := asS(sch["type"])
	if typ == "" && (sch["properties"] != nil || sch["allOf"] != nil) {
		typ = "object"
	}
	switch typ {
	case "object":
		return j + ".Kind() == 5", true
	case "array":
		return j + ".Kind() == 4", true
	case "string":
		return j + ".Kind() == 3", true
	case "integer":
		return "(" + j + ".Kind() == 2 && " + j + ".IsInt())", true
	case "number":
		return j + ".Kind() == 2", true
	case "boolean":
		return j + ".Kind() == 1", true
	}
	return "", false
}

func genC08Harness(u *PkgUnit) (int, error) {
	g := u.Gen
	if u.Spec == nil {
		return 0, nil
	}
	types := g.codecTypes()
	var sb strings.Builder
	sb.WriteString("//go:build verif\n\npackage " + g.Name + "\n\nimport (\n\t\"encoding/json\"\n\t\"strings\"\n\t\"time\"\n\n\t\"vscratch/vrt\"\n)\n\nvar _ = strings.Contains\nvar _ = time.RFC3339\nvar _ = json.Valid\n\n")
	var vb strings.Builder
	emitValidators(&vb, u.Spec)
	sb.WriteString(strings.ReplaceAll(vb.String(), "verifSchema_", "verifC08Schema_"))
	emitDocBuilders(&sb, u.Spec)
	n := 0
	for _, t := range types {
		sn, ok := schemaForType(u.Spec, t)
		if !ok {
			continue
		}
		n++
		vf := strings.ReplaceAll(schemaFuncName(sn), "verifSchema_", "verifC08Schema_")
		fmt.Fprintf(&sb, "func VerifC08_%s() {\n\tdoc := %s(\"d\", true)\n\tj, ok := vrt.ParseJSON([]byte(doc))\n\tvrt.Assert(ok, \"harness: generated document is not JSON\")\n\tif !ok {\n\t\treturn\n\t}\n", t, docFuncName(sn))
		if g.embeddedSwallows(t) {
			sb.WriteString("\tvrt.Known(\"C08-allof-member-with-additional-properties\", true)\n")
		}
		if inlineAllOfAdditional(u.Spec, sn) {
			sb.WriteString("\tvrt.Known(\"C08-allof-inline-member-additional-properties-dropped\", true)\n")
		}
		fmt.Fprintf(&sb, "\tvalid := %s(j, false)\n\texact := valid && %s(j, true)\n\tvar w %s\n\terr := json.Unmarshal([]byte(doc), &w)\n", vf, vf, t)
		sb.WriteString("\tif valid {\n\t\tvrt.Reach(\"valid-document\")\n\t\tvrt.Assert(err == nil, \"a document that is valid for the schema was rejected\")\n\t\tif err == nil {\n\t\t\tbs, merr := w.MarshalJSON()\n\t\t\tvrt.Assert(merr == nil, \"re-encoding a decoded valid document failed\")\n\t\t\tif merr == nil {\n\t\t\t\trj, rok := vrt.ParseJSON(bs)\n\t\t\t\tvrt.Assert(rok, \"re-encoding a decoded valid document gave invalid JSON\")\n\t\t\t\tif rok && exact {\n\t\t\t\t\tvrt.Assert(j.Equal(rj), \"decode then encode of a valid document is not an equivalent JSON value\")\n\t\t\t\t}\n\t\t\t}\n\t\t}\n\t}\n")
		// single-fault claims at the top level of object schemas
		sch := u.Spec.Resolve(asM(asM(asM(u.Spec.Doc["components"])["schemas"])[sn]))
		ve := &valEmitter{spec: u.Spec, sb: &sb}
		props := map[string]M{}
		req := map[string]bool{}
		var addl interface{}
		if len(asL(sch["oneOf"])) == 0 && (asS(sch["type"]) == "object" || sch["properties"] != nil || sch["allOf"] != nil) {
			ve.collectObject(sch, props, req, &addl)
			var pn []string
			for p := range props {
				pn = append(pn, p)
			}
			sort.Strings(pn)
			sb.WriteString("\tif j.Kind() == 5 {\n\t\tstrict := false\n\t\t_ = strict\n\t\tmissing, kindErr, otherBad := 0, 0, 0\n\t\tfaulty := \"\"\n")
			for i, p := range pn {
				fmt.Fprintf(&sb, "\t\ttm%d, has%d := j.Get(%q)\n\t\t_ = tm%d\n", i, i, p, i)
				fmt.Fprintf(&sb, "\t\tok%d := func() bool {\n\t\t\tif !has%d {\n\t\t\t\treturn true\n\t\t\t}\n", i, i)
				ve.emit(props[p], fmt.Sprintf("tm%d", i), "\t\t\t", 1)
				sb.WriteString("\t\t\treturn true\n\t\t}()\n")
				if req[p] {
					fmt.Fprintf(&sb, "\t\tif !has%d {\n\t\t\tmissing++\n\t\t\tfaulty = %q\n\t\t}\n", i, p)
				}
				if kc, okk := schemaKindCheck(u.Spec, props[p], fmt.Sprintf("tm%d", i)); okk {
					fmt.Fprintf(&sb, "\t\tif has%d && tm%d.Kind() != 0 && !(%s) {\n\t\t\tkindErr++\n\t\t\tfaulty = %q\n\t\t} else if !ok%d {\n\t\t\totherBad++\n\t\t}\n", i, i, kc, p, i)
				} else {
					fmt.Fprintf(&sb, "\t\tif !ok%d {\n\t\t\totherBad++\n\t\t}\n", i)
				}
			}
			sb.WriteString("\t\tif missing == 1 && kindErr == 0 && otherBad == 0 {\n\t\t\tvrt.Reach(\"required-missing\")\n\t\t\tvrt.Assert(err != nil, \"a document lacking a required property was accepted\")\n\t\t\tif err != nil {\n\t\t\t\tvrt.Assert(strings.Contains(err.Error(), faulty), \"the error for a missing required property does not name it\")\n\t\t\t}\n\t\t}\n")
			sb.WriteString("\t\tif missing == 0 && kindErr == 1 && otherBad == 0 {\n\t\t\tvrt.Reach(\"wrong-type\")\n\t\t\tvrt.Assert(err != nil, \"a declared property carrying a non-null value of the wrong JSON type was accepted\")\n\t\t\tif err != nil {\n\t\t\t\tvrt.Assert(strings.Contains(err.Error(), faulty), \"the error for a wrongly typed property does not name it\")\n\t\t\t}\n\t\t}\n\t}\n")
		}
		sb.WriteString("}\n\n")
	}
	if n == 0 {
		return 0, nil
	}
	return n, os.WriteFile(filepath.Join(u.Dir, "zz_verif_c08.go"), []byte(strings.ReplaceAll(sb.String(), "verifSchema_", "verifC08Schema_")), 0o644)
}

// inlineAllOfAdditional: the schema has an inline allOf member that declares
// additionalProperties (goag does not carry them: recorded known finding).
func inlineAllOfAdditional(spec *SpecRef, name string) bool {
	sch := asM(asM(asM(spec.Doc["components"])["schemas"])[name])
	for _, m := range asL(sch["allOf"]) {
		mm := asM(m)
		if _, isRef := mm["$ref"]; isRef {
			continue
		}
		if ap, ok := mm["additionalProperties"]; ok {
			if b, isB := ap.(bool); !isB || b {
				return true
			}
		}
	}
	return false
}
