package main

import (
	"fmt"
	"go/ast"
	"os"
	"path/filepath"
	"strings"
)

// clientMethod: does the generated client have a method for this handler, and
// does it take a params argument?
func (g *GenPkg) clientMethod(base string) (exists, takesParams bool) {
	fd := g.Methods["Client"][base]
	if fd == nil {
		return false, false
	}
	n := 0
	for _, f := range fd.Type.Params.List {
		k := len(f.Names)
		if k == 0 {
			k = 1
		}
		n += k
	}
	return true, n >= 2
}

func parseReturnsError(g *GenPkg, base string) bool {
	fd := g.Funcs["new"+base+"Params"]
	if fd == nil || fd.Type.Results == nil {
		return false
	}
	n := 0
	for _, f := range fd.Type.Results.List {
		k := len(f.Names)
		if k == 0 {
			k = 1
		}
		n += k
	}
	return n >= 2
}

// emitParamDomain writes vrt.Assume lines for the documented domain
// restrictions of a Params value (DESIGN 11.1, 11.3).
func emitParamDomain(sb *strings.Builder, g *GenPkg, base, v string, wfPrefix string, codec map[string]bool) {
	// a header parameter that doubles as a credential carrier is always sent
	// (the harness transport would otherwise add a credential of its own)
	for _, f := range g.structFields(base + "ParamsHeaders") {
		for _, c := range credHeaderNames {
			if normName(f[0]) == normName(c) {
				if o, _, ok := unwrapGeneric(f[1]); ok && isMaybe(o) {
					fmt.Fprintf(sb, "\tvrt.Assume(%s.Headers.%s.IsSet)\n", v, f[0])
				}
			}
		}
	}
	for _, f := range g.structFields(base + "ParamsPath") {
		if f[1] == "string" || g.isNamedString(f[1]) {
			fmt.Fprintf(sb, "\tvrt.Assume(len(%s.Path.%s) > 0 && !strings.Contains(string(%s.Path.%s), \"/\"))\n", v, f[0], v, f[0])
		}
	}
	for _, sel := range []string{"Query", "Headers"} {
		for _, f := range g.structFields(base + "Params" + sel) {
			ft := f[1]
			val := v + "." + sel + "." + f[0]
			if o, in, ok := unwrapGeneric(ft); ok && isMaybe(o) {
				if strings.HasPrefix(in, "[]") || g.isNamedSlice(in) {
					fmt.Fprintf(sb, "\tvrt.Assume(!%s.IsSet || len(%s.Value) > 0)\n", val, val)
				}
				continue
			}
			if strings.HasPrefix(ft, "[]") || g.isNamedSlice(ft) {
				fmt.Fprintf(sb, "\tvrt.Assume(len(%s) > 0)\n", val)
			}
		}
	}
	for _, f := range g.structFields(base + "Params") {
		if f[0] == "Body" && codec[f[1]] {
			fmt.Fprintf(sb, "\tvrt.Assume(%s%s(%s.Body))\n", wfPrefix, f[1], v)
		}
	}
}

func paramsBodyIsReader(g *GenPkg, base string) bool {
	for _, f := range g.structFields(base + "Params") {
		if f[0] == "Body" && (f[1] == "io.Reader" || f[1] == "io.ReadCloser") {
			return true
		}
	}
	return false
}

// emitClientSetup: API with recording handlers + a client whose transport hands
// the request object to the API in-process (like the generated LocalClient).
func emitTransport(sb *strings.Builder, u *PkgUnit) { emitTransportRec(sb, u, false) }

func emitTransportRec(sb *strings.Builder, u *PkgUnit, record bool) {
	defer func() {}()
	recLine = ""
	if record {
		recLine = "\t\twirePath, wireMethod = req.URL.Path, req.Method\n"
	}
	fmt.Fprintf(sb, "\tclient := NewClient(%q, HTTPClientFunc(func(req *http.Request) (*http.Response, error) {\n", u.Spec.BasePath)
	for _, c := range specCreds(u.Spec) {
		switch c.Kind {
		case "bearer":
			sb.WriteString("\t\tif len(req.Header[\"Authorization\"]) == 0 {\n\t\t\treq.Header[\"Authorization\"] = []string{\"Bearer t\"}\n\t\t}\n")
		case "apikey-header":
			fmt.Fprintf(sb, "\t\tif len(req.Header[%q]) == 0 {\n\t\t\treq.Header[%q] = []string{\"k\"}\n\t\t}\n", canonHeader(c.Name), canonHeader(c.Name))
		case "apikey-query":
			fmt.Fprintf(sb, "\t\t{\n\t\t\tq := req.URL.Query()\n\t\t\tq[%q] = []string{\"k\"}\n\t\t\tvrt.SetQuery(req.URL, q)\n\t\t}\n", c.Name)
		}
	}
	sb.WriteString(recLine + "\t\tw := newVerifRec()\n\t\tapi.ServeHTTP(w, req)\n\t\treturn &http.Response{StatusCode: w.status, Header: w.hdr, Body: io.NopCloser(strings.NewReader(w.body))}, nil\n\t}))\n")
}

var credHeaderNames []string
var recLine string

func setCredHeaderNames(u *PkgUnit) {
	credHeaderNames = nil
	for _, c := range specCreds(u.Spec) {
		if c.Kind == "bearer" || c.Kind == "apikey-header" {
			credHeaderNames = append(credHeaderNames, c.Name)
		}
	}
}

func genC09Harness(u *PkgUnit, maxParams int) (int, error) {
	s := u.Spec
	g := u.Gen
	if !g.HasClient {
		return 0, nil
	}
	setCredHeaderNames(u)
	var sb strings.Builder
	sb.WriteString(harnessHeader(u, "io"))
	sb.WriteString("var _ io.Reader\n\n")
	all := g.allStructTypes()
	var wf strings.Builder
	g.emitWF(&wf, all, s)
	sb.WriteString(strings.ReplaceAll(wf.String(), "verifWF_", "verifC09WF_"))
	emitRefRoute(&sb, u, "verifC09")
	codec := map[string]bool{}
	for _, t := range all {
		codec[t] = true
	}
	n := 0
	for _, op := range s.Ops {
		idx, h, ok := opHandler(u, op)
		if !ok {
			continue
		}
		exists, takes := g.clientMethod(h.Base)
		if !exists || !takes || !h.HasParams {
			continue
		}
		if g.usesCustomTypes(h.Base+"Params", map[string]bool{}) || paramsBodyIsReader(g, h.Base) {
			continue
		}
		if maxParams > 0 && g.paramCount(h.Base) > maxParams {
			u.Meta["c09_skipped_wide_ops"] += h.Base + " "
			continue
		}
		n++
		fmt.Fprintf(&sb, "// %s %s\nfunc VerifC09_Op%d() {\n\tvar sent %sParams\n\tvrt.Arbitrary(&sent, \"sent\")\n", op.Method, op.Tmpl.Raw, idx, h.Base)
		emitParamDomain(&sb, g, h.Base, "sent", "verifC09WF_", codec)
		fmt.Fprintf(&sb, "\thit := 0\n\tvar got %sParams\n\tvar gerr error\n\t_ = gerr\n", h.Base)
		retErr := parseReturnsError(g, h.Base)
		emitAPISetup(&sb, u, func(i int, gh *GenHandler) string {
			if i == idx {
				if retErr {
					return fmt.Sprintf("\t\thit = %d\n\t\tgot, gerr = r.Parse()\n", i)
				}
				return fmt.Sprintf("\t\thit = %d\n\t\tgot = r.Parse()\n", i)
			}
			return fmt.Sprintf("\t\thit = %d\n", i)
		})
		for _, f := range u.Gen.SecFields {
			fmt.Fprintf(&sb, "\tapi.%s = func(r *http.Request, token string) (*http.Request, bool) { return r, true }\n", f)
		}
		sb.WriteString("\twirePath, wireMethod := \"\", \"\"\n")
		emitTransportRec(&sb, u, true)
		fmt.Fprintf(&sb, "\tvrt.Enter()\n\t_, cerr := client.%s(context.Background(), sent)\n\t_ = cerr\n", h.Base)
		tk := -1
		for k, t := range u.Spec.Tmpls {
			if t == op.Tmpl {
				tk = k
			}
		}
		fmt.Fprintf(&sb, "\tok%s := verifC09Match%d(wirePath)\n\tvrt.Assert(ok && wireMethod == %q, \"the request the client put on the wire is not a request for the called operation (method or path does not match its template)\")\n", blanks(nVars(op.Tmpl)), tk, op.Method)
		fmt.Fprintf(&sb, "\twant, _ := verifC09RefRoute(wirePath, wireMethod)\n\tvrt.Assert(hit == want, \"the request the client put on the wire was not dispatched as OpenAPI path matching says\")\n\tif want != %d {\n\t\t// the value is not expressible for this operation: a literal sibling template takes the path\n\t\tvrt.Reach(\"shadowed-by-literal-sibling\")\n\t\treturn\n\t}\n\tif hit != %d {\n\t\treturn\n\t}\n", idx, idx)
		sb.WriteString("\tvrt.Assert(gerr == nil, \"the server rejected a request the generated client produced from a valid Params value\")\n\tif gerr != nil {\n\t\treturn\n\t}\n\tvrt.Reach(\"parsed\")\n")
		sb.WriteString("\tvrt.Assert(vrt.Equal(got, sent), \"the handler's parsed parameters differ from what the client was given\")\n}\n\n")
	}
	if n == 0 {
		return 0, nil
	}
	return n, os.WriteFile(filepath.Join(u.Dir, "zz_verif_c09.go"), []byte(sb.String()), 0o644)
}

// ---------------------------------------------------------------- C10

func responseHasReaderBody(g *GenPkg, t string) bool {
	for _, f := range g.structFields(t) {
		if f[0] == "Body" && (f[1] == "io.ReadCloser" || f[1] == "io.Reader") {
			return true
		}
	}
	return false
}

func genC10Harness(u *PkgUnit) (int, error) {
	s := u.Spec
	g := u.Gen
	if !g.HasClient {
		return 0, nil
	}
	setCredHeaderNames(u)
	var sb strings.Builder
	sb.WriteString(harnessHeader(u, "io"))
	sb.WriteString("var _ io.Reader\n\n")
	all := g.allStructTypes()
	var wf strings.Builder
	g.emitWF(&wf, all, s)
	sb.WriteString(strings.ReplaceAll(wf.String(), "verifWF_", "verifC10WF_"))
	codec := map[string]bool{}
	for _, t := range all {
		codec[t] = true
	}
	n := 0
	for _, op := range s.Ops {
		idx, h, ok := opHandler(u, op)
		if !ok || h.WriteM == "" {
			continue
		}
		exists, takes := g.clientMethod(h.Base)
		if !exists {
			continue
		}
		if h.HasParams && (g.usesCustomTypes(h.Base+"Params", map[string]bool{}) || paramsBodyIsReader(g, h.Base)) {
			continue
		}
		var real []string
		for _, t := range g.ResponseImplementers(h.WriteM) {
			if t != "verifResp" && !responseHasReaderBody(g, t) && !g.usesCustomTypes(t, map[string]bool{}) {
				real = append(real, t)
			}
		}
		if len(real) == 0 {
			continue
		}
		docs := opResponses(s, op)
		call := fmt.Sprintf("client.%s(context.Background())", h.Base)
		if takes {
			call = fmt.Sprintf("client.%s(context.Background(), sent)", h.Base)
		}
		prelude := func() {
			if takes && h.HasParams {
				fmt.Fprintf(&sb, "\tvar sent %sParams\n\tvrt.Arbitrary(&sent, \"sent\")\n", h.Base)
				emitParamDomain(&sb, g, h.Base, "sent", "verifC10WF_", codec)
			}
		}
		n++
		// (1) documented values round-trip
		fmt.Fprintf(&sb, "// %s %s\nfunc VerifC10_Op%d() {\n", op.Method, op.Tmpl.Raw, idx)
		prelude()
		fmt.Fprintf(&sb, "\tvar resp %s\n\tswitch vrt.Choose(\"implementer\", %d) {\n", h.RespType, len(real))
		for k, t := range real {
			fmt.Fprintf(&sb, "\tcase %d:\n\t\tvar v %s\n\t\tvrt.Arbitrary(&v, \"v\")\n", k, t)
			for _, f := range g.structFields(t) {
				switch {
				case f[0] == "Body" && codec[f[1]]:
					fmt.Fprintf(&sb, "\t\tvrt.Assume(verifC10WF_%s(v.Body))\n", f[1])
				case f[0] == "Body" && (strings.HasPrefix(f[1], "[]") || g.isNamedSlice(f[1])):
					sb.WriteString("\t\tvrt.Known(\"C10-nil-array-body-written-as-null\", v.Body == nil)\n")
				case f[0] == "Code":
					sb.WriteString("\t\tvrt.Assume(v.Code >= 100 && v.Code <= 599)\n")
					for _, d := range docs {
						if d.Status != "default" {
							// a default response sent with a documented status is delivered as that status's response
							fmt.Fprintf(&sb, "\t\tvrt.Assume(v.Code != %s)\n", d.Status)
						}
					}
				}
			}
			// required array headers with no item cannot be told from absence on the wire
			for _, hf := range g.headerFields(t) {
				if strings.HasPrefix(hf[1], "[]") {
					fmt.Fprintf(&sb, "\t\tvrt.Assume(len(v.Headers.%s) > 0)\n", hf[0])
				}
				if o, in, okg := unwrapGeneric(hf[1]); okg && isMaybe(o) && strings.HasPrefix(in, "[]") {
					fmt.Fprintf(&sb, "\t\tvrt.Assume(!v.Headers.%s.IsSet || len(v.Headers.%s.Value) > 0)\n", hf[0], hf[0])
				}
			}
			sb.WriteString("\t\tresp = v\n")
		}
		sb.WriteString("\t}\n\thit := 0\n")
		emitAPISetup(&sb, u, func(i int, gh *GenHandler) string { return fmt.Sprintf("\t\thit = %d\n", i) })
		fmt.Fprintf(&sb, "\tapi.%s = func(ctx context.Context, r %s) %s {\n\t\thit = %d\n\t\treturn resp\n\t}\n", h.Field, h.ReqType, h.RespType, idx)
		for _, f := range u.Gen.SecFields {
			fmt.Fprintf(&sb, "\tapi.%s = func(r *http.Request, token string) (*http.Request, bool) { return r, true }\n", f)
		}
		emitTransport(&sb, u)
		fmt.Fprintf(&sb, "\tvrt.Enter()\n\tgot, cerr := %s\n", call)
		// a path value a literal sibling template takes is not a request for this operation (routing is C09's subject)
		fmt.Fprintf(&sb, "\tif hit != %d {\n\t\tvrt.Reach(\"not-dispatched\")\n\t\treturn\n\t}\n", idx)
		sb.WriteString("\tvrt.Assert(cerr == nil, \"the client failed on a documented response the server sent\")\n\tif cerr != nil {\n\t\treturn\n\t}\n\tvrt.Reach(\"reconstructed\")\n")
		sb.WriteString("\tvrt.Assert(vrt.Equal(got, resp), \"the client returned a response that differs in kind or content from what the handler returned\")\n}\n\n")

		// (2) undocumented status codes
		defType := ""
		for _, t := range g.ResponseImplementers(h.WriteM) {
			if t != "verifResp" && g.intendedStatus(t, h.WriteM) == "default" {
				defType = t
			}
		}
		fmt.Fprintf(&sb, "func VerifC10_Op%dUndocumented() {\n", idx)
		prelude()
		sb.WriteString("\tstatus := vrt.IntRange(\"status\", 100, 599)\n")
		for _, d := range docs {
			if d.Status != "default" {
				fmt.Fprintf(&sb, "\tvrt.Assume(status != %s)\n", d.Status)
			}
		}
		fmt.Fprintf(&sb, "\tclient := NewClient(%q, HTTPClientFunc(func(req *http.Request) (*http.Response, error) {\n\t\treturn &http.Response{StatusCode: status, Header: http.Header{}, Body: io.NopCloser(strings.NewReader(\"{}\"))}, nil\n\t}))\n", u.Spec.BasePath)
		fmt.Fprintf(&sb, "\tgot, cerr := %s\n", call)
		if defType != "" {
			fmt.Fprintf(&sb, "\tif cerr == nil {\n\t\td, ok := got.(%s)\n\t\tvrt.Assert(ok, \"an undocumented status was delivered as a documented non-default response\")\n\t\tif ok {\n\t\t\tvrt.Assert(d.Code == status, \"the default response does not carry the status code the server sent\")\n\t\t}\n\t}\n", defType)
		} else {
			sb.WriteString("\tvrt.Assert(cerr != nil, \"an undocumented status (no default declared) was delivered as a documented response instead of an error\")\n\t_ = got\n")
		}
		sb.WriteString("}\n\n")
	}
	if n == 0 {
		return 0, nil
	}
	return n, os.WriteFile(filepath.Join(u.Dir, "zz_verif_c10.go"), []byte(sb.String()), 0o644)
}

var _ = ast.NewIdent

func (g *GenPkg) isNamedString(t string) bool {
	for n := 0; n < 8; n++ {
		ts := g.Types[t]
		if ts == nil {
			return false
		}
		id, ok := ts.Type.(*ast.Ident)
		if !ok {
			return false
		}
		if id.Name == "string" {
			return true
		}
		t = id.Name
	}
	return false
}

// paramCount: declared query+header+path fields of an operation's Params.
func (g *GenPkg) paramCount(base string) int {
	return len(g.structFields(base+"ParamsQuery")) + len(g.structFields(base+"ParamsHeaders")) + len(g.structFields(base+"ParamsPath"))
}
