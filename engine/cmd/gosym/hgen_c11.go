package main

import (
	"fmt"
	"os"
	"path/filepath"
	"strings"
)

// concretePath instantiates a template (variables become "v").
func concretePath(u *PkgUnit, t *TmplRef) string {
	p := u.Spec.BasePath
	for _, sg := range t.Segs {
		p += "/"
		if sg.IsVar {
			p += "v"
		} else {
			p += sg.Lit
		}
	}
	return p
}

// secField finds the API field goag generated for a credential carrier.
func secField(u *PkgUnit, c credRef) string {
	switch c.Kind {
	case "bearer":
		for _, f := range u.Gen.SecFields {
			if f == "SecurityBearerAuth" {
				return f
			}
		}
	case "apikey-header", "apikey-query":
		for _, f := range u.Gen.SecFields {
			if strings.HasPrefix(f, "SecurityAPIKeyAuth") && normName(strings.TrimPrefix(f, "SecurityAPIKeyAuth")) == normName(c.Name) {
				return f
			}
		}
	}
	return ""
}

// C11: per-operation security. The request line is a concrete instance of each
// operation (routing is C03's subject); credentials, authenticator presence and
// verdicts are symbolic.
func genC11Harness(u *PkgUnit) (int, error) {
	s := u.Spec
	creds := specCreds(s)
	if len(creds) == 0 {
		return 0, nil
	}
	var sb strings.Builder
	sb.WriteString(harnessHeader(u))
	sb.WriteString("type verifC11Tag struct{}\n\n")
	nOps := 0
	for _, op := range s.Ops {
		idx, _, ok := opHandler(u, op)
		if !ok {
			continue
		}
		nOps++
		fmt.Fprintf(&sb, "// %s %s\nfunc VerifC11Op%d() {\n", op.Method, op.Tmpl.Raw, idx)
		sb.WriteString("\thit, seenTag := 0, 0\n\t_ = seenTag\n\tcalls := []int{}\n\toks := []bool{}\n\ttokOK := []bool{}\n\t_ = tokOK\n")
		emitAPISetup(&sb, u, func(i int, h *GenHandler) string {
			return fmt.Sprintf("\t\thit = %d\n\t\tif t, ok := r.HTTP().Context().Value(verifC11Tag{}).(int); ok {\n\t\t\tseenTag = t\n\t\t}\n", i)
		})
		sb.WriteString("\thdr := http.Header{}\n\tquery := url.Values{}\n")
		// credentials: absent or one symbolic value; authenticators: nil or installed
		for k, c := range creds {
			if c.Kind == "unsupported" {
				continue
			}
			fmt.Fprintf(&sb, "\thas%d := vrt.Bool(\"cred_%s_present\")\n\tval%d := vrt.String(\"cred_%s\", 10)\n", k, c.Scheme, k, c.Scheme)
			switch c.Kind {
			case "bearer", "apikey-header":
				fmt.Fprintf(&sb, "\tif has%d {\n\t\thdr[%q] = []string{val%d}\n\t}\n", k, canonHeader(c.Name), k)
			case "apikey-query":
				fmt.Fprintf(&sb, "\tif has%d {\n\t\tquery[%q] = []string{val%d}\n\t}\n", k, c.Name, k)
			}
			f := secField(u, c)
			if f == "" {
				fmt.Fprintf(&sb, "\tinst%d := false\n\t_ = inst%d\n", k, k)
				continue
			}
			want := fmt.Sprintf("token == val%d", k)
			if c.Kind == "bearer" {
				want = fmt.Sprintf("token == strings.TrimPrefix(val%d, \"Bearer \")", k)
			}
			fmt.Fprintf(&sb, `	inst%d := vrt.Bool("authenticator_%s_installed")
	if inst%d {
		api.%s = func(r *http.Request, token string) (*http.Request, bool) {
			ok := vrt.Bool("verdict_%s")
			calls = append(calls, %d)
			oks = append(oks, ok)
			tokOK = append(tokOK, %s)
			return r.WithContext(context.WithValue(r.Context(), verifC11Tag{}, %d)), ok
		}
	}
`, k, c.Scheme, k, f, c.Scheme, k+1, want, k+1)
		}
		fmt.Fprintf(&sb, "\tw := newVerifRec()\n\tu := &url.URL{Path: %q}\n\tvrt.SetQuery(u, query)\n\tr := &http.Request{Method: %q, URL: u, Header: hdr, Body: http.NoBody}\n\tvrt.Enter()\n\tapi.ServeHTTP(w, r)\n", concretePath(u, op.Tmpl), op.Method)
		// effective requirement
		credIdx := map[string]int{}
		for k, c := range creds {
			credIdx[c.Scheme] = k
		}
		public := !op.HasSec || len(op.Security) == 0
		fmt.Fprintf(&sb, "\tran := hit == %d\n\tvrt.Assert(hit == 0 || hit == %d, \"another operation's handler ran\")\n", idx, idx)
		if public {
			sb.WriteString("\tvrt.Reach(\"public-op\")\n\tvrt.Assert(ran, \"public operation was not reachable\")\n\tvrt.Assert(len(calls) == 0, \"an authenticator was consulted for a public operation\")\n\tvrt.Assert(w.status == 299, \"public operation did not answer with the handler's response\")\n}\n\n")
			continue
		}
		// classify alternatives
		listed := map[int]bool{}
		hasAnd, hasUnsupported := false, false
		for _, alt := range op.Security {
			if len(alt) >= 2 {
				hasAnd = true
			}
			for _, sc := range alt {
				k, ok := credIdx[sc]
				if !ok || creds[k].Kind == "unsupported" {
					hasUnsupported = true
					continue
				}
				if len(alt) == 1 {
					listed[k] = true
				}
			}
		}
		if hasAnd {
			sb.WriteString("\tvrt.Known(\"C11-and-requirement\", true)\n")
		}
		if hasUnsupported {
			sb.WriteString("\tvrt.Known(\"C11-unsupported-scheme-kind\", true)\n")
		}
		sb.WriteString("\tvrt.Reach(\"secured-op\")\n")
		// every consulted authenticator belongs to a listed single-scheme alternative
		sb.WriteString("\tgranted := false\n\tfor i := 0; i < len(calls); i++ {\n\t\tlistedCall := false\n")
		for k := range creds {
			if listed[k] {
				fmt.Fprintf(&sb, "\t\tif calls[i] == %d {\n\t\t\tlistedCall = true\n\t\t}\n", k+1)
			}
		}
		sb.WriteString("\t\tvrt.Assert(tokOK[i], \"authenticator did not receive the credential extracted as documented\")\n")
		sb.WriteString("\t\tif oks[i] {\n\t\t\tvrt.Assert(listedCall, \"credentials for a scheme the operation does not list granted access\")\n\t\t\tvrt.Assert(i == len(calls)-1, \"an authenticator was consulted after one had accepted\")\n\t\t\tgranted = listedCall\n\t\t}\n\t}\n")
		sb.WriteString("\tif ran {\n\t\tvrt.Assert(granted, \"handler ran although no listed alternative was accepted\")\n\t\tif granted {\n\t\t\tvrt.Assert(seenTag == calls[len(calls)-1], \"handler did not receive the request returned by the accepting authenticator\")\n\t\t}\n\t} else {\n")
		sb.WriteString("\t\tvrt.Assert(w.status == 401, \"rejected request was not answered 401\")\n\t\tvrt.Assert(!granted, \"an alternative was accepted but the handler did not run\")\n")
		// no less: each listed, installed scheme with a credential present was consulted
		for k := range creds {
			if listed[k] {
				fmt.Fprintf(&sb, "\t\tif inst%d && has%d {\n\t\t\tconsulted := false\n\t\t\tfor i := 0; i < len(calls); i++ {\n\t\t\t\tif calls[i] == %d {\n\t\t\t\t\tconsulted = true\n\t\t\t\t}\n\t\t\t}\n\t\t\tvrt.Assert(consulted, \"a listed alternative with credential and authenticator present was never consulted\")\n\t\t}\n", k, k, k+1)
			}
		}
		sb.WriteString("\t}\n}\n\n")
	}
	if nOps == 0 {
		return 0, nil
	}
	return nOps, os.WriteFile(filepath.Join(u.Dir, "zz_verif_c11.go"), []byte(sb.String()), 0o644)
}
