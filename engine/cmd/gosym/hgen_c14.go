package main

import (
	"fmt"
	"os"
	"path/filepath"
	"strings"
)

// bodySchemaRef: the component schema name of an operation's JSON request body, if any.
func bodySchemaRef(s *SpecRef, op *OpRef) (name string, hasBody bool, isJSON bool) {
	rb := s.Resolve(asM(op.Node["requestBody"]))
	if rb == nil {
		return "", false, false
	}
	content := asM(rb["content"])
	if mt := asM(content["application/json"]); mt != nil {
		sch := asM(mt["schema"])
		if ref, ok := sch["$ref"].(string); ok && strings.HasPrefix(ref, "#/components/schemas/") {
			return refName(ref), true, true
		}
		return "", true, true
	}
	return "", len(content) > 0, false
}

// genC14Harness: arbitrary requests never panic and are answered exactly once.
func genC14Harness(u *PkgUnit, minL int) (int, error) {
	s := u.Spec
	var sb strings.Builder
	sb.WriteString(harnessHeader(u, "io", "time"))
	sb.WriteString("var _ io.Reader\nvar _ = time.RFC3339\n\n")
	var db strings.Builder
	emitDocBuilders(&db, s)
	sb.WriteString(strings.ReplaceAll(db.String(), "verifC08Doc_", "verifC14Doc_"))
	L := pathBound(s, minL)
	// (a) arbitrary request line
	fmt.Fprintf(&sb, "func VerifC14AnyRequestLine() {\n\tpath := vrt.String(\"path\", %d)\n\tmethod := vrt.String(\"method\", 8)\n", L)
	emitAPISetup(&sb, u, func(i int, h *GenHandler) string { return "\t\tr.Parse()\n" })
	sb.WriteString("\thdr := http.Header{}\n\tquery := url.Values{}\n")
	emitAcceptAllSecurity(&sb, u)
	sb.WriteString("\tw := newVerifRec()\n\tu := &url.URL{Path: path}\n\tvrt.SetQuery(u, query)\n\tr := &http.Request{Method: method, URL: u, Header: hdr, Body: http.NoBody}\n\tvrt.Enter()\n\tapi.ServeHTTP(w, r)\n\tvrt.Assert(w.nWH == 1, \"the request was not answered exactly once\")\n}\n\n")
	n := 1
	// (b) per operation: arbitrary parameters, credentials, body
	creds := specCreds(s)
	for _, op := range s.Ops {
		idx, h, ok := opHandler(u, op)
		if !ok {
			continue
		}
		n++
		fmt.Fprintf(&sb, "// %s %s\nfunc VerifC14_Op%d() {\n", op.Method, op.Tmpl.Raw, idx)
		emitAPISetup(&sb, u, func(i int, gh *GenHandler) string { return "\t\tr.Parse()\n" })
		_ = h
		sb.WriteString("\thdr := http.Header{}\n\tquery := url.Values{}\n")
		// credentials: absent / arbitrary; authenticators: nil or installed with arbitrary verdict
		for k, c := range creds {
			if c.Kind == "unsupported" {
				continue
			}
			fmt.Fprintf(&sb, "\tif vrt.Bool(\"cred_%s_present\") {\n", c.Scheme)
			switch c.Kind {
			case "bearer", "apikey-header":
				fmt.Fprintf(&sb, "\t\thdr[%q] = []string{vrt.String(\"cred_%s\", 8)}\n", canonHeader(c.Name), c.Scheme)
			case "apikey-query":
				fmt.Fprintf(&sb, "\t\tquery[%q] = []string{vrt.String(\"cred_%s\", 8)}\n", c.Name, c.Scheme)
			}
			sb.WriteString("\t}\n")
			if f := secField(u, c); f != "" {
				fmt.Fprintf(&sb, "\tif vrt.Bool(\"authenticator_%s_installed\") {\n\t\tapi.%s = func(r *http.Request, token string) (*http.Request, bool) { return r, vrt.Bool(\"verdict_%d\") }\n\t}\n", c.Scheme, f, k)
			}
		}
		// parameters: one designated fully symbolic, the others absent
		var prms []*ParamRef
		for _, p := range op.Params {
			if p.In == "query" || p.In == "header" {
				prms = append(prms, p)
			}
		}
		if len(prms) > 0 {
			fmt.Fprintf(&sb, "\tswitch vrt.Choose(\"designated_parameter\", %d) {\n", len(prms))
			for k, p := range prms {
				target := fmt.Sprintf("query[%q]", p.Name)
				if p.In == "header" {
					target = fmt.Sprintf("hdr[%q]", canonHeader(p.Name))
				}
				fmt.Fprintf(&sb, "\tcase %d:\n\t\tif vrt.Bool(\"has_param\") {\n\t\t\tif vrt.Bool(\"two_values\") {\n\t\t\t\t%s = []string{vrt.String(\"val0\", 8), vrt.String(\"val1\", 8)}\n\t\t\t} else {\n\t\t\t\t%s = []string{vrt.String(\"val0\", 8)}\n\t\t\t}\n\t\t}\n", k, target, target)
			}
			sb.WriteString("\t}\n")
		}
		// body
		ref, hasBody, isJSON := bodySchemaRef(s, op)
		sb.WriteString("\tvar body io.ReadCloser = http.NoBody\n")
		if hasBody {
			nch := 3
			if ref != "" {
				nch = 4
			}
			fmt.Fprintf(&sb, "\tswitch vrt.Choose(\"body_shape\", %d) {\n\tcase 1:\n\t\tbody = io.NopCloser(strings.NewReader(\"{\"))\n\tcase 2:\n\t\tbody = io.NopCloser(strings.NewReader(vrt.JSONAny(\"body\")))\n", nch)
			if ref != "" {
				fmt.Fprintf(&sb, "\tcase 3:\n\t\tbody = io.NopCloser(strings.NewReader(%s(\"d\", true)))\n", strings.ReplaceAll(docFuncName(ref), "verifC08Doc_", "verifC14Doc_"))
			}
			sb.WriteString("\t}\n")
			_ = isJSON
		}
		fmt.Fprintf(&sb, "\tw := newVerifRec()\n\tu := &url.URL{Path: %q}\n\tvrt.SetQuery(u, query)\n\tr := &http.Request{Method: %q, URL: u, Header: hdr, Body: body}\n\tvrt.Enter()\n\tapi.ServeHTTP(w, r)\n\tvrt.Assert(w.nWH == 1, \"the request was not answered exactly once\")\n}\n\n",
			concreteOpPath(u, op), op.Method)
	}
	return n, os.WriteFile(filepath.Join(u.Dir, "zz_verif_c14.go"), []byte(sb.String()), 0o644)
}
