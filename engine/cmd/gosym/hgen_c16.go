package main

import (
	"fmt"
	"os"
	"path/filepath"
	"strconv"
	"strings"
)

func specRouteName(u *PkgUnit) string {
	n := u.Flags.SpecName
	if n == "" {
		n = "openapi.yaml"
	}
	return u.Spec.BasePath + "/" + n
}

func harnessHeader(u *PkgUnit, extraImports ...string) string {
	var sb strings.Builder
	sb.WriteString("//go:build verif\n\npackage " + u.Gen.Name + "\n\nimport (\n\t\"context\"\n\t\"net/http\"\n\t\"net/url\"\n\t\"strings\"\n")
	for _, im := range extraImports {
		sb.WriteString("\t\"" + im + "\"\n")
	}
	sb.WriteString("\n\t\"vscratch/vrt\"\n)\n\nvar _ = strings.HasPrefix\nvar _ context.Context\nvar _ = url.Values{}\nvar _ = vrt.Assume\n\n")
	return sb.String()
}

// emitRefRoute writes <pfx>Match<k> and <pfx>RefRoute for the package.
func emitRefRoute(sb *strings.Builder, u *PkgUnit, pfx string) {
	var mb strings.Builder
	emitMatchFuncs(&mb, u.Spec)
	sb.WriteString(strings.ReplaceAll(mb.String(), "verifMatch", pfx+"Match"))
	fmt.Fprintf(sb, "func %sRefRoute(path, method string) (want int, tmpl string) {\n", pfx)
	for k, t := range u.Spec.Tmpls {
		for _, m := range methodOrder {
			op := t.Ops[strings.ToUpper(m)]
			if op == nil {
				continue
			}
			idx, _, ok := opHandler(u, op)
			if !ok {
				continue
			}
			fmt.Fprintf(sb, "\tif want == 0 && method == %q {\n\t\tif ok%s := %sMatch%d(path); ok {\n\t\t\twant, tmpl = %d, %q\n\t\t}\n\t}\n", op.Method, blanks(nVars(t)), pfx, k, idx, t.Raw)
		}
	}
	sb.WriteString("\treturn\n}\n\n")
}

// C16: middleware trace. C13 (serving half): spec-file route.
func genC16Harness(u *PkgUnit, minL, maxMW int) error {
	var sb strings.Builder
	sb.WriteString(harnessHeader(u))
	emitRefRoute(&sb, u, "verifC16")
	L := pathBound(u.Spec, minL)
	if n := len(specRouteName(u)) + 2; n > L {
		L = n
	}
	fmt.Fprintf(&sb, "func VerifC16Middlewares() {\n\tpath := vrt.String(\"path\", %d)\n\tmethod := vrt.String(\"method\", 8)\n", L)
	fmt.Fprintf(&sb, "\tn := vrt.IntRange(\"n_middlewares\", 0, %d)\n\ttrace := []int{}\n\thit := 0\n\tbadTmpl := false\n\twant, wantTmpl := verifC16RefRoute(path, method)\n", maxMW)
	emitAPISetup(&sb, u, func(i int, h *GenHandler) string {
		return fmt.Sprintf("\t\thit = %d\n\t\ttrace = append(trace, 1000)\n", i)
	})
	sb.WriteString("\thdr := http.Header{}\n\tquery := url.Values{}\n")
	// accepting authenticators that leave a mark in the trace
	for _, f := range u.Gen.SecFields {
		fmt.Fprintf(&sb, "\tapi.%s = func(r *http.Request, token string) (*http.Request, bool) { trace = append(trace, 500); return r, true }\n", f)
	}
	for _, c := range specCreds(u.Spec) {
		switch c.Kind {
		case "bearer":
			sb.WriteString("\thdr[\"Authorization\"] = []string{\"Bearer t\"}\n")
		case "apikey-header":
			fmt.Fprintf(&sb, "\thdr[%q] = []string{\"k\"}\n", canonHeader(c.Name))
		case "apikey-query":
			fmt.Fprintf(&sb, "\tquery[%q] = []string{\"k\"}\n", c.Name)
		}
	}
	sb.WriteString(`	for i := 0; i < n; i++ {
		k := i + 1
		api.Middlewares = append(api.Middlewares, func(next http.Handler) http.Handler {
			return http.HandlerFunc(func(w http.ResponseWriter, r *http.Request) {
				trace = append(trace, k)
				t, ok := SchemaPath(r)
				if !ok || t != wantTmpl {
					badTmpl = true
				}
				next.ServeHTTP(w, r)
				trace = append(trace, -k)
			})
		})
	}
	specRan, corsRan := 0, 0
	specSet := vrt.Bool("spec_handler_installed")
	if specSet {
		api.SpecFileHandler = verifMarker{ran: &specRan, status: 297}
	}
`)
	if u.Gen.HasCORS {
		sb.WriteString("\tif vrt.Bool(\"cors_handler_installed\") {\n\t\tapi.CORSHandler = func(ms, hs []string) http.Handler { return verifMarker{ran: &corsRan, status: 296} }\n\t}\n")
	}
	fmt.Fprintf(&sb, `	w := newVerifRec()
	u := &url.URL{Path: path}
	vrt.SetQuery(u, query)
	r := &http.Request{Method: method, URL: u, Header: hdr, Body: http.NoBody}
	vrt.Enter()
	api.ServeHTTP(w, r)
	_ = corsRan
	isSpec := specSet && path == %q
	if isSpec {
		vrt.Reach("spec-file")
		vrt.Assert(len(trace) == 0 && hit == 0, "spec-file request did not bypass middlewares / reached a handler")
		vrt.Assert(specRan == 1 && w.status == 297, "spec-file request was not answered by the installed spec handler")
		return
	}
	vrt.Assert(specRan == 0, "spec handler ran for a request that is not the spec route")
	if want == 0 {
		vrt.Reach("unrouted")
		vrt.Assert(len(trace) == 0, "a middleware (or handler) ran for a request that matches no operation")
		return
	}
	vrt.Reach("routed")
	vrt.Assert(hit == want, "routed request did not reach its operation handler")
	vrt.Assert(!badTmpl, "a middleware did not see the matched template via SchemaPath")
	// shape: 1..n, [500]*, 1000, -n..-1
	vrt.Assert(len(trace) >= 2*n+1, "some middleware was skipped")
	if len(trace) >= 2*n+1 {
		for i := 0; i < n; i++ {
			vrt.Assert(trace[i] == i+1, "middlewares do not enter in declared order (first declared outermost)")
			vrt.Assert(trace[len(trace)-1-i] == -(i + 1), "middlewares do not leave in reverse order")
		}
		inner := trace[n : len(trace)-n]
		vrt.Assert(inner[len(inner)-1] == 1000, "handler is not innermost")
		for j := 0; j < len(inner)-1; j++ {
			vrt.Assert(inner[j] == 500, "something other than the security check runs between middlewares and handler (a middleware ran twice or inside security)")
		}
	}
}

`, specRouteName(u))
	return os.WriteFile(filepath.Join(u.Dir, "zz_verif_c16.go"), []byte(sb.String()), 0o644)
}

// C13 serving half: the generated SpecFileHandler() answers the spec route with
// the embedded constant, whatever middlewares are installed; and the embedded
// constant equals the input file (constant comparison, decided by the engine).
func genC13ServeHarness(u *PkgUnit, minL int) error {
	if !u.Gen.SpecFileConst {
		return nil
	}
	raw, err := os.ReadFile(filepath.Join(u.Dir, "openapi.yaml"))
	if err != nil {
		return err
	}
	var sb strings.Builder
	sb.WriteString(harnessHeader(u))
	emitRefRoute(&sb, u, "verifC13")
	L := pathBound(u.Spec, minL)
	if n := len(specRouteName(u)) + 2; n > L {
		L = n
	}
	ext := strings.TrimPrefix(filepath.Ext(specRouteName(u)), ".")
	fmt.Fprintf(&sb, "const verifC13Input = %s\n\n", strconv.Quote(string(raw)))
	fmt.Fprintf(&sb, `func VerifC13Embedded() {
	vrt.Assert(SpecFile == verifC13Input, "embedded SpecFile constant differs from the input spec file")
	vrt.Assert(len(SpecFile) == %d, "embedded SpecFile constant has a different length than the input spec file")
}

func VerifC13Serve() {
	path := vrt.String("path", %d)
	method := vrt.String("method", 8)
	hit, mwRan := 0, 0
	want, _ := verifC13RefRoute(path, method)
`, len(raw), L)
	emitAPISetup(&sb, u, func(i int, h *GenHandler) string { return fmt.Sprintf("\t\thit = %d\n", i) })
	sb.WriteString("\thdr := http.Header{}\n\tquery := url.Values{}\n")
	emitAcceptAllSecurity(&sb, u)
	fmt.Fprintf(&sb, `	installed := vrt.Bool("spec_handler_installed")
	if installed {
		api.SpecFileHandler = SpecFileHandler()
	}
	n := vrt.IntRange("n_middlewares", 0, 2)
	shorted := false
	for i := 0; i < n; i++ {
		short := vrt.Bool("mw_short_circuits")
		api.Middlewares = append(api.Middlewares, func(next http.Handler) http.Handler {
			return http.HandlerFunc(func(w http.ResponseWriter, r *http.Request) {
				mwRan++
				if short {
					shorted = true
					w.WriteHeader(295)
					return
				}
				next.ServeHTTP(w, r)
			})
		})
	}
	w := newVerifRec()
	u := &url.URL{Path: path}
	vrt.SetQuery(u, query)
	r := &http.Request{Method: method, URL: u, Header: hdr, Body: http.NoBody}
	vrt.Enter()
	api.ServeHTTP(w, r)
	if path == %q {
		if installed {
			vrt.Reach("spec-served")
			vrt.Assert(w.status == 200 && w.nWH == 1, "spec route did not answer 200 exactly once")
			vrt.Assert(w.body == SpecFile, "served spec body differs from the embedded spec")
			ct := w.hdr["Content-Type"]
			vrt.Assert(len(ct) == 1 && ct[0] == %q, "spec route Content-Type is not application/<spec extension>")
			vrt.Assert(mwRan == 0 && hit == 0, "spec route went through middlewares / a handler")
		} else {
			vrt.Reach("spec-not-installed")
			if !shorted {
				vrt.Assert(hit == want, "with no spec handler installed the spec path is not routed like any other path")
			}
			if want == 0 {
				vrt.Assert(w.status == 404, "with no spec handler installed the spec path is not answered 404")
			}
		}
	}
}
`, specRouteName(u), "application/"+ext)
	return os.WriteFile(filepath.Join(u.Dir, "zz_verif_c13.go"), []byte(sb.String()), 0o644)
}
