package main

import (
	"fmt"
	"os"
	"path/filepath"
	"sort"
	"strings"
)

// corsSets: what the path item DECLARES (from the YAML): methods, and the
// canonical de-duplicated header parameter names + headers read by the
// effective security schemes of its operations.
func corsSets(u *PkgUnit, t *TmplRef) (methods, headers []string) {
	seen := map[string]bool{}
	add := func(h string) {
		h = canonHeader(h)
		if !seen[h] {
			seen[h] = true
			headers = append(headers, h)
		}
	}
	creds := map[string]credRef{}
	for _, c := range specCreds(u.Spec) {
		creds[c.Scheme] = c
	}
	for _, m := range methodOrder {
		op := t.Ops[strings.ToUpper(m)]
		if op == nil {
			continue
		}
		methods = append(methods, op.Method)
		for _, p := range op.Params {
			if p.In == "header" {
				add(p.Name)
			}
		}
		for _, alt := range op.Security {
			for _, sc := range alt {
				switch c := creds[sc]; c.Kind {
				case "bearer":
					add("Authorization")
				case "apikey-header":
					add(c.Name)
				}
			}
		}
	}
	sort.Strings(methods)
	sort.Strings(headers)
	return
}

func goStrList(ss []string) string {
	var qs []string
	for _, s := range ss {
		qs = append(qs, fmt.Sprintf("%q", s))
	}
	return "[]string{" + strings.Join(qs, ", ") + "}"
}

func genC17Harness(u *PkgUnit, minL int) (bool, error) {
	if !u.Gen.HasCORS {
		return false, nil
	}
	var sb strings.Builder
	sb.WriteString(harnessHeader(u))
	emitRefRoute(&sb, u, "verifC17")
	sb.WriteString(`// verifC17SameSet: got has no duplicates and equals want as a set.
func verifC17SameSet(got, want []string) bool {
	if len(got) != len(want) {
		return false
	}
	for i := 0; i < len(got); i++ {
		for j := i + 1; j < len(got); j++ {
			if got[i] == got[j] {
				return false
			}
		}
		found := false
		for j := 0; j < len(want); j++ {
			if got[i] == want[j] {
				found = true
			}
		}
		if !found {
			return false
		}
	}
	return true
}

`)
	L := pathBound(u.Spec, minL)
	fmt.Fprintf(&sb, "func VerifC17Preflight() {\n\tpath := vrt.String(\"path\", %d)\n\tmethod := vrt.String(\"method\", 8)\n\thit, corsRan, corsCalls := 0, 0, 0\n\tvar gotM, gotH []string\n", L)
	emitAPISetup(&sb, u, func(i int, h *GenHandler) string { return fmt.Sprintf("\t\thit = %d\n", i) })
	sb.WriteString("\thdr := http.Header{}\n\tquery := url.Values{}\n")
	emitAcceptAllSecurity(&sb, u)
	sb.WriteString(`	installed := vrt.Bool("cors_handler_installed")
	if installed {
		api.CORSHandler = func(ms, hs []string) http.Handler {
			corsCalls++
			gotM, gotH = ms, hs
			return verifMarker{ran: &corsRan, status: 296}
		}
	}
	mwRan := 0
	api.Middlewares = []func(http.Handler) http.Handler{func(next http.Handler) http.Handler {
		return http.HandlerFunc(func(w http.ResponseWriter, r *http.Request) {
			mwRan++
			next.ServeHTTP(w, r)
		})
	}}
	w := newVerifRec()
	u := &url.URL{Path: path}
	vrt.SetQuery(u, query)
	r := &http.Request{Method: method, URL: u, Header: hdr, Body: http.NoBody}
	vrt.Enter()
	api.ServeHTTP(w, r)
	want, _ := verifC17RefRoute(path, method)
	if method != "OPTIONS" {
		vrt.Assert(corsCalls == 0, "CORS handler consulted for a non-OPTIONS request")
		return
	}
	if want != 0 {
		vrt.Reach("declared-options")
		vrt.Assert(hit == want && corsCalls == 0, "a declared OPTIONS operation was shadowed by the CORS preflight")
		return
	}
	matched := false
`)
	for k, t := range u.Spec.Tmpls {
		if t.Ops["OPTIONS"] != nil {
			// a template with its own OPTIONS op: if it matches, want != 0 above
			continue
		}
		ms, hs := corsSets(u, t)
		known := ""
		for _, op := range t.Ops {
			for _, alt := range op.Security {
				if len(alt) >= 2 {
					known = "\t\t\tvrt.Known(\"C17-and-requirement\", true)\n"
				}
			}
		}
		fmt.Fprintf(&sb, "\tif !matched {\n\t\tif ok%s := verifC17Match%d(path); ok {\n\t\t\tmatched = true\n%s\t\t\tvrt.Reach(\"preflight\")\n\t\t\tif installed {\n\t\t\t\tvrt.Assert(corsRan == 1 && corsCalls == 1 && w.status == 296, \"preflight on a declared path was not answered by the CORS handler\")\n\t\t\t\tif corsCalls == 1 {\n\t\t\t\t\tvrt.Assert(verifC17SameSet(gotM, %s), \"CORS handler got a method set different from the path's declared methods\")\n\t\t\t\t\tvrt.Assert(verifC17SameSet(gotH, %s), \"CORS handler got a header set different from the path's declared header parameters + security headers\")\n\t\t\t\t}\n\t\t\t} else {\n\t\t\t\tvrt.Assert(w.status == 404 && corsCalls == 0, \"preflight without a CORS handler installed was not answered 404\")\n\t\t\t}\n\t\t\tvrt.Assert(hit == 0 && mwRan == 0, \"preflight reached an operation handler / the middlewares\")\n\t\t}\n\t}\n",
			blanks(nVars(t)), k, known, goStrList(ms), goStrList(hs))
	}
	sb.WriteString("\tif !matched {\n\t\tvrt.Assert(corsCalls == 0 && hit == 0, \"OPTIONS on an undeclared path reached the CORS handler or an operation\")\n\t}\n}\n")
	return true, os.WriteFile(filepath.Join(u.Dir, "zz_verif_c17.go"), []byte(sb.String()), 0o644)
}
