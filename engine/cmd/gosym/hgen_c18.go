package main

import (
	"fmt"
	"go/ast"
	"os"
	"path/filepath"
	"sort"
	"strings"
)

// C18: product harness over two packages generated from one API written in
// two ways (references vs inline copies). Each package gets the same
// "observation" functions (in-package, so they can use unexported names); a
// third package calls both under vrt.ShareNames(true) - inputs are identified
// by name, both observations see the same request / value / document - and
// asserts that what is observable on the wire is equal.

// shapeSig: a structural description of a generated Go type, insensitive to
// the names of the types involved.
func (g *GenPkg) shapeSig(t string, depth int) string {
	t = strings.TrimSpace(t)
	if depth > 12 {
		return "rec"
	}
	switch {
	case strings.HasPrefix(t, "[]"):
		return "[" + g.shapeSig(t[2:], depth+1) + "]"
	case strings.HasPrefix(t, "map[string]"):
		return "map{" + g.shapeSig(t[len("map[string]"):], depth+1) + "}"
	case strings.HasPrefix(t, "*"):
		return "*" + g.shapeSig(t[1:], depth+1)
	}
	if o, in, ok := unwrapGeneric(t); ok {
		if i := strings.LastIndex(o, "."); i >= 0 {
			o = o[i+1:]
		}
		return o + "<" + g.shapeSig(in, depth+1) + ">"
	}
	if strings.Contains(t, ".") || strings.HasPrefix(t, "struct") || strings.HasPrefix(t, "interface") {
		return t
	}
	ts := g.Types[t]
	if ts == nil {
		return t // builtin
	}
	if _, isStruct := ts.Type.(*ast.StructType); isStruct {
		var parts []string
		for _, f := range g.structFields(t) {
			parts = append(parts, f[0]+":"+g.shapeSig(f[1], depth+1))
		}
		return "{" + strings.Join(parts, ";") + "}"
	}
	return g.shapeSig(exprText(ts.Type), depth+1)
}

// c18Plan: what is compared for one pair.
type c18Plan struct {
	A, B     *PkgUnit
	Name     string
	Ops      []c18Op
	PathL    int
	Skipped  []string
}

type c18Op struct {
	K          int // index into Spec.Ops (same in both specs)
	Params     bool
	ParamsSame bool   // Params shapes equal: parsed values are compared
	BodyDoc    string // doc builder function (without prefix) for the JSON request body, "" if none
	BodyFrom   string // "A" or "B": whose spec the builder comes from
	BodyJSON   bool   // Params.Body is a generated codec type in both: its re-encoding is compared
	PlainBody  bool   // one side declares the body as components/requestBodies entry with an inline object schema (known finding)
	OneOfBody  bool   // one side writes the request body schema as an inline oneOf (known finding)
	AllOfAP    bool   // the body schema is an allOf with a member that declares additionalProperties (known finding)
	Resps      []c18Resp
}

type c18Resp struct {
	Status string
	TA, TB string
}

func makeC18Plan(a, b *PkgUnit, name string) *c18Plan {
	pl := &c18Plan{A: a, B: b, Name: name}
	if len(a.Spec.Ops) != len(b.Spec.Ops) {
		pl.Skipped = append(pl.Skipped, "operation lists differ")
		return pl
	}
	pl.PathL = pathBound(a.Spec, 16)
	for k, opA := range a.Spec.Ops {
		opB := b.Spec.Ops[k]
		if opA.Method != opB.Method || opA.Tmpl.Raw != opB.Tmpl.Raw {
			pl.Skipped = append(pl.Skipped, "operation order differs")
			return pl
		}
		_, hA, okA := opHandler(a, opA)
		_, hB, okB := opHandler(b, opB)
		if !okA || !okB {
			continue
		}
		o := c18Op{K: k}
		if hA.HasParams && hB.HasParams && parseReturnsError(a.Gen, hA.Base) && parseReturnsError(b.Gen, hB.Base) {
			o.Params = true
			customA := a.Gen.usesCustomTypes(hA.Base+"Params", map[string]bool{}) || paramsBodyIsReader(a.Gen, hA.Base)
			customB := b.Gen.usesCustomTypes(hB.Base+"Params", map[string]bool{}) || paramsBodyIsReader(b.Gen, hB.Base)
			sa, sb := a.Gen.shapeSig(hA.Base+"Params", 0), b.Gen.shapeSig(hB.Base+"Params", 0)
			o.ParamsSame = !customA && !customB && sa == sb
			if !o.ParamsSame {
				pl.Skipped = append(pl.Skipped, fmt.Sprintf("%s %s: Params values not compared (custom types or different Go shapes); acceptance and status are", opA.Method, opA.Tmpl.Raw))
			}
			if ref, has, isJSON := bodySchemaRef(a.Spec, opA); has && isJSON && ref != "" {
				o.BodyDoc, o.BodyFrom = ref, "A"
			} else if ref, has, isJSON := bodySchemaRef(b.Spec, opB); has && isJSON && ref != "" {
				o.BodyDoc, o.BodyFrom = ref, "B"
			}
			bodyType := func(g *GenPkg, base string) string {
				for _, f := range g.structFields(base + "Params") {
					if f[0] == "Body" {
						return f[1]
					}
				}
				return ""
			}
			o.PlainBody = componentBodyInlineObject(a.Spec, opA) || componentBodyInlineObject(b.Spec, opB)
			o.OneOfBody = bodyInlineOneOf(a.Spec, opA) || bodyInlineOneOf(b.Spec, opB)
			o.AllOfAP = bodyAllOfWithAdditional(a.Spec, opA) || bodyAllOfWithAdditional(b.Spec, opB)
			ba, bb := bodyType(a.Gen, hA.Base), bodyType(b.Gen, hB.Base)
			o.BodyJSON = ba != "" && bb != "" && !strings.Contains(ba, "io.") && !strings.Contains(bb, "io.")
		}
		if hA.WriteM != "" && hB.WriteM != "" {
			byStatus := func(u *PkgUnit, h *GenHandler) map[string]string {
				m := map[string]string{}
				for _, t := range u.Gen.ResponseImplementers(h.WriteM) {
					if t == "verifResp" || responseHasReaderBody(u.Gen, t) || u.Gen.usesCustomTypes(t, map[string]bool{}) {
						continue
					}
					if st := u.Gen.intendedStatus(t, h.WriteM); st != "" {
						m[st] = t
					}
				}
				return m
			}
			ma, mb := byStatus(a, hA), byStatus(b, hB)
			var sts []string
			for st := range ma {
				sts = append(sts, st)
			}
			sort.Strings(sts)
			for _, st := range sts {
				tb, ok := mb[st]
				if !ok {
					continue
				}
				if a.Gen.shapeSig(ma[st], 0) != b.Gen.shapeSig(tb, 0) {
					pl.Skipped = append(pl.Skipped, fmt.Sprintf("%s %s response %s: Go shapes differ, not compared", opA.Method, opA.Tmpl.Raw, st))
					continue
				}
				o.Resps = append(o.Resps, c18Resp{Status: st, TA: ma[st], TB: tb})
			}
		}
		pl.Ops = append(pl.Ops, o)
	}
	return pl
}

// genC18Obs writes the observation functions of one side of a pair.
func genC18Obs(pl *c18Plan, side string, tier string) error {
	u := pl.A
	if side == "B" {
		u = pl.B
	}
	g, s := u.Gen, u.Spec
	var sb strings.Builder
	sb.WriteString(harnessHeader(u, "encoding/json", "io", "time"))
	sb.WriteString("var _ io.Reader\nvar _ = time.RFC3339\nvar _ = json.Marshal\n\n")
	sb.WriteString(`// ObsC18 is what one side of the pair shows for one input.
type ObsC18 struct {
	Hit     int
	Status  int
	NWH     int
	HasErr  bool
	Params  interface{}
	Hdr     http.Header
	Body    string
	EncErr  bool
}

`)
	// document builders: the same text on both sides
	for _, from := range []struct {
		tag string
		u   *PkgUnit
	}{{"A", pl.A}, {"B", pl.B}} {
		var db strings.Builder
		emitDocBuilders(&db, from.u.Spec)
		sb.WriteString(strings.ReplaceAll(db.String(), "verifC08Doc_", "verifC18Doc"+from.tag+"_"))
	}
	all := g.allStructTypes()
	var wf strings.Builder
	g.emitWF(&wf, all, s)
	sb.WriteString(strings.ReplaceAll(wf.String(), "verifWF_", "verifC18WF_"))
	codec := map[string]bool{}
	for _, t := range all {
		codec[t] = true
	}
	// handler index -> operation number (1-based position in Spec.Ops)
	opNo := map[int]int{}
	for k, op := range s.Ops {
		if i, _, ok := opHandler(u, op); ok {
			opNo[i] = k + 1
		}
	}
	// ---- routing: one arbitrary request line
	fmt.Fprintf(&sb, "func ObsC18Route() ObsC18 {\n\tpath := vrt.String(\"path\", %d)\n\tmethod := vrt.String(\"method\", 8)\n\thit := 0\n\thasErr := false\n", pl.PathL)
	emitAPISetup(&sb, u, func(i int, h *GenHandler) string {
		return fmt.Sprintf("\t\thit = %d\n", opNo[i])
	})
	sb.WriteString("\thdr := http.Header{}\n\tquery := url.Values{}\n")
	emitAcceptAllSecurity(&sb, u)
	sb.WriteString("\tw := newVerifRec()\n\tu := &url.URL{Path: path}\n\tvrt.SetQuery(u, query)\n\tr := &http.Request{Method: method, URL: u, Header: hdr, Body: http.NoBody}\n\tapi.ServeHTTP(w, r)\n\treturn ObsC18{Hit: hit, Status: w.status, NWH: w.nWH, HasErr: hasErr}\n}\n\n")

	for _, o := range pl.Ops {
		op := s.Ops[o.K]
		idx, h, _ := opHandler(u, op)
		if o.Params {
			var prms []*ParamRef
			for _, p := range op.Params {
				if p.In == "query" || p.In == "header" {
					prms = append(prms, p)
				}
			}
			fmt.Fprintf(&sb, "// %s %s\nfunc ObsC18Params_K%d() ObsC18 {\n\thit := 0\n\tvar prm %sParams\n\tvar perr error\n\tencoded, encErr := \"\", false\n\t_, _ = encoded, encErr\n", op.Method, op.Tmpl.Raw, o.K, h.Base)
			emitAPISetup(&sb, u, func(i int, gh *GenHandler) string {
				if i == idx {
					x := fmt.Sprintf("\t\thit = %d\n\t\tprm, perr = r.Parse()\n", opNo[i])
					if o.BodyJSON {
						x += "\t\tif perr == nil {\n\t\t\tbs, merr := json.Marshal(prm.Body)\n\t\t\tencoded, encErr = string(bs), merr != nil\n\t\t}\n"
					}
					return x
				}
				return fmt.Sprintf("\t\thit = %d\n", opNo[i])
			})
			sb.WriteString("\thdr := http.Header{}\n\tquery := url.Values{}\n")
			emitAcceptAllSecurity(&sb, u)
			ndev := len(prms)
			fmt.Fprintf(&sb, "\tdev := vrt.Choose(\"designated\", %d)\n\tothers := vrt.Bool(\"other_optionals_present\")\n\t_, _ = dev, others\n", ndev+1)
			for k, p := range prms {
				id := goIdent(p.In + "_" + p.Name)
				b := valueBound(p.Kind, tier)
				lex, haveLex := validLexeme(p.Kind)
				fmt.Fprintf(&sb, "\thas_%s, two_%s, a_%s, b_%s := false, false, \"\", \"\"\n", id, id, id, id)
				fmt.Fprintf(&sb, "\tif dev == %d {\n\t\thas_%s = vrt.Bool(\"has_%s\")\n\t\ttwo_%s = vrt.Bool(\"two_values_%s\")\n\t\ta_%s = vrt.String(\"val0_%s\", %d)\n\t\tb_%s = vrt.String(\"val1_%s\", %d)\n\t}", k, id, id, id, id, id, id, b, id, id, b)
				switch {
				case !haveLex:
					sb.WriteString("\n")
				case p.Required:
					fmt.Fprintf(&sb, " else {\n\t\thas_%s, a_%s = true, %q\n\t}\n", id, id, lex)
				default:
					fmt.Fprintf(&sb, " else if others {\n\t\thas_%s, a_%s = true, %q\n\t}\n", id, id, lex)
				}
				target := fmt.Sprintf("query[%q]", p.Name)
				if p.In == "header" {
					target = fmt.Sprintf("hdr[%q]", canonHeader(p.Name))
				}
				fmt.Fprintf(&sb, "\tif has_%s {\n\t\tif two_%s {\n\t\t\t%s = []string{a_%s, b_%s}\n\t\t} else {\n\t\t\t%s = []string{a_%s}\n\t\t}\n\t}\n", id, id, target, id, id, target, id)
			}
			// body: designated = the document may deviate; otherwise a valid document
			sb.WriteString("\tvar body io.ReadCloser = http.NoBody\n")
			_, hasBody, isJSON := bodySchemaRef(s, op)
			if hasBody && isJSON {
				if o.BodyDoc != "" {
					fn := "verifC18Doc" + o.BodyFrom + "_" + reNonAlnum.ReplaceAllString(o.BodyDoc, "_")
					src := pl.A.Spec
					if o.BodyFrom == "B" {
						src = pl.B.Spec
					}
					free := fmt.Sprintf("dev == %d", ndev)
					limit := 6
					if tier == "thorough" {
						limit = 9
					}
					if schemaSize(src, asM(asM(asM(src.Doc["components"])["schemas"])[o.BodyDoc]), 0) > limit {
						// large documents are valid ones only (symbolic inside their kinds); their
						// deviating forms are decided per schema by C08
						free = "false"
					}
					fmt.Fprintf(&sb, "\tbody = io.NopCloser(strings.NewReader(%s(\"d\", %s)))\n", fn, free)
				} else {
					fmt.Fprintf(&sb, "\tif dev == %d {\n\t\tbody = io.NopCloser(strings.NewReader(vrt.JSONAny(\"body\")))\n\t} else {\n\t\tbody = io.NopCloser(strings.NewReader(\"{}\"))\n\t}\n", ndev)
				}
			}
			fmt.Fprintf(&sb, "\tw := newVerifRec()\n\tu := &url.URL{Path: %q}\n\tvrt.SetQuery(u, query)\n\tr := &http.Request{Method: %q, URL: u, Header: hdr, Body: body}\n\tapi.ServeHTTP(w, r)\n", concreteOpPath(u, op), op.Method)
			sb.WriteString("\treturn ObsC18{Hit: hit, Status: w.status, NWH: w.nWH, HasErr: perr != nil, Params: prm, Body: encoded, EncErr: encErr}\n}\n\n")
		}
		for _, r := range o.Resps {
			t := r.TA
			if side == "B" {
				t = r.TB
			}
			fmt.Fprintf(&sb, "// response %s of %s %s\nfunc ObsC18Resp_K%d_%s() ObsC18 {\n\tvar v %s\n\tvrt.Arbitrary(&v, \"v\")\n", r.Status, op.Method, op.Tmpl.Raw, o.K, r.Status, t)
			for _, f := range g.structFields(t) {
				switch {
				case f[0] == "Body" && codec[f[1]]:
					fmt.Fprintf(&sb, "\tvrt.Assume(verifC18WF_%s(v.Body))\n", f[1])
				case f[0] == "Code":
					sb.WriteString("\tvrt.Assume(v.Code >= 100 && v.Code <= 599)\n")
				}
				if f[0] == "Body" && (strings.HasPrefix(f[1], "[]") || g.isNamedSlice(f[1])) {
					sb.WriteString("\tvrt.Known(\"C18-nil-array-body-null-vs-empty\", v.Body == nil)\n")
				}
			}
			fmt.Fprintf(&sb, "\tw := newVerifRec()\n\tv.%s(w)\n\treturn ObsC18{Status: w.status, NWH: w.nWH, Hdr: w.hdr, Body: w.body}\n}\n\n", h.WriteM)
		}
	}
	return os.WriteFile(filepath.Join(u.Dir, "zz_verif_c18.go"), []byte(sb.String()), 0o644)
}

// genC18Pair writes the product harness package.
func genC18Pair(c *Ctx, pl *c18Plan) (int, error) {
	dir := filepath.Join(c.Mod, "pairs", pl.Name)
	os.MkdirAll(dir, 0o755)
	var sb strings.Builder
	fmt.Fprintf(&sb, "//go:build verif\n\npackage pair\n\nimport (\n\tpa \"vscratch/pkgs/%s\"\n\tpb \"vscratch/pkgs/%s\"\n\t\"vscratch/vrt\"\n)\n\n", pl.A.Name, pl.B.Name)
	sb.WriteString(`func sameJSON(x, y string) bool {
	jx, okx := vrt.ParseJSON([]byte(x))
	jy, oky := vrt.ParseJSON([]byte(y))
	if !okx || !oky {
		return x == y
	}
	return jx.Equal(jy)
}

var _ = sameJSON

func VerifC18Route() {
	vrt.ShareNames(true)
	a := pa.ObsC18Route()
	b := pb.ObsC18Route()
	vrt.Assert(a.Hit == b.Hit, "the two forms of the spec route the same request line to different operations")
	vrt.Assert(a.Status == b.Status && a.NWH == b.NWH, "the two forms of the spec answer the same request line with different status codes")
}

`)
	n := 1
	for _, o := range pl.Ops {
		if o.Params {
			n++
			known := ""
			if o.PlainBody {
				known = "\tvrt.Known(\"C18-component-request-body-inline-schema-plain-struct\", true)\n"
			}
			if o.OneOfBody {
				known += "\tvrt.Known(\"C18-inline-oneof-request-body-without-codec\", true)\n"
			}
			if o.AllOfAP {
				known += "\tvrt.Known(\"C18-allof-member-additional-properties-ref-vs-inline\", true)\n"
			}
			fmt.Fprintf(&sb, "func VerifC18Params_K%d() {\n\tvrt.ShareNames(true)\n"+known+"\ta := pa.ObsC18Params_K%d()\n\tb := pb.ObsC18Params_K%d()\n", o.K, o.K, o.K)
			sb.WriteString("\tvrt.Assert(a.Hit == b.Hit, \"the two forms of the spec dispatch the same request differently\")\n")
			sb.WriteString("\tvrt.Assert(a.HasErr == b.HasErr, \"a request is accepted by one form of the spec and rejected by the other\")\n")
			sb.WriteString("\tvrt.Assert(a.Status == b.Status, \"the same request is answered with different status codes by the two forms of the spec\")\n")
			sb.WriteString("\tif a.HasErr || b.HasErr || a.Hit == 0 {\n\t\tvrt.Reach(\"rejected\")\n\t\treturn\n\t}\n\tvrt.Reach(\"accepted\")\n")
			if o.ParamsSame {
				sb.WriteString("\tvrt.Assert(vrt.Same(a.Params, b.Params), \"the handler sees different parameter values under the two forms of the spec\")\n")
			}
			sb.WriteString("\tvrt.Assert(a.EncErr == b.EncErr, \"re-encoding the decoded body fails under one form of the spec only\")\n\tif !a.EncErr && !b.EncErr {\n\t\tvrt.Assert(sameJSON(a.Body, b.Body), \"the same request body is re-encoded to different JSON by the two forms of the spec\")\n\t}\n}\n\n")
		}
		for _, r := range o.Resps {
			n++
			fmt.Fprintf(&sb, "func VerifC18Resp_K%d_%s() {\n\tvrt.ShareNames(true)\n\ta := pa.ObsC18Resp_K%d_%s()\n\tb := pb.ObsC18Resp_K%d_%s()\n", o.K, r.Status, o.K, r.Status, o.K, r.Status)
			sb.WriteString("\tvrt.Reach(\"written\")\n\tvrt.Assert(a.Status == b.Status && a.NWH == b.NWH, \"the same response value is written with different status codes by the two forms of the spec\")\n")
			sb.WriteString("\tvrt.Assert(vrt.Equal(a.Hdr, b.Hdr), \"the same response value is written with different headers by the two forms of the spec\")\n")
			sb.WriteString("\tvrt.Assert(sameJSON(a.Body, b.Body), \"the same response value is written with different bodies by the two forms of the spec\")\n}\n\n")
		}
	}
	return n, os.WriteFile(filepath.Join(dir, "zz_verif_pair.go"), []byte(sb.String()), 0o644)
}

// componentBodyInlineObject: the operation's request body is a reference to a
// components/requestBodies entry whose JSON schema is written inline.
func componentBodyInlineObject(s *SpecRef, op *OpRef) bool {
	rb := asM(op.Node["requestBody"])
	if rb == nil {
		return false
	}
	ref, ok := rb["$ref"].(string)
	if !ok || !strings.HasPrefix(ref, "#/components/requestBodies/") {
		return false
	}
	def := s.Resolve(rb)
	sch := asM(asM(asM(def["content"])["application/json"])["schema"])
	if sch == nil {
		return false
	}
	_, isRef := sch["$ref"]
	return !isRef
}

// schemaSize: number of member / item positions of a schema (references followed, depth-limited).
func schemaSize(s *SpecRef, sch M, depth int) int {
	sch = s.Resolve(sch)
	if sch == nil || depth > 3 {
		return 1
	}
	n := 1
	for _, m := range asL(sch["allOf"]) {
		n += schemaSize(s, asM(m), depth+1)
	}
	for _, m := range asL(sch["oneOf"]) {
		n += schemaSize(s, asM(m), depth+1)
	}
	for _, p := range asM(sch["properties"]) {
		n += schemaSize(s, asM(p), depth+1)
	}
	if it := asM(sch["items"]); it != nil {
		n += schemaSize(s, it, depth+1)
	}
	if ap := asM(sch["additionalProperties"]); ap != nil {
		n += schemaSize(s, ap, depth+1)
	}
	return n
}

// bodyInlineOneOf: the JSON request body schema is a oneOf written in place.
func bodyInlineOneOf(s *SpecRef, op *OpRef) bool {
	rb := s.Resolve(asM(op.Node["requestBody"]))
	sch := asM(asM(asM(rb["content"])["application/json"])["schema"])
	if sch == nil {
		return false
	}
	if _, isRef := sch["$ref"]; isRef {
		return false
	}
	return len(asL(sch["oneOf"])) > 0
}

// bodyAllOfWithAdditional: the JSON request body schema (resolved) is an allOf
// one of whose members (resolved) declares additionalProperties.
func bodyAllOfWithAdditional(s *SpecRef, op *OpRef) bool {
	rb := s.Resolve(asM(op.Node["requestBody"]))
	sch := s.Resolve(asM(asM(asM(rb["content"])["application/json"])["schema"]))
	for _, m := range asL(sch["allOf"]) {
		mm := s.Resolve(asM(m))
		if ap, ok := mm["additionalProperties"]; ok {
			if b, isB := ap.(bool); !isB || b {
				return true
			}
		}
	}
	return false
}
