package main

import (
	"fmt"
	"os"
	"path/filepath"
	"strings"
)

// C20 harnesses (write confinement). Shape of every harness:
//
//	draw all inputs; build the API (and Client) value   -- shared part
//	vrt.Shared(api[, client]); vrt.Enter()
//	vrt.Concurrent(func() { build one request; serve it / call the client })
//
// The closure allocates everything that belongs to one request and writes no
// captured variable, so that (a) the executor's heap partition is exactly
// "globals + API/Client reachable" vs "per request", and (b) the same closure
// can be run natively in several goroutines under the race detector to
// confirm a reported write (replay).
func genC20Harness(u *PkgUnit) (int, error) {
	s := u.Spec
	g := u.Gen
	setCredHeaderNames(u)
	var sb strings.Builder
	sb.WriteString(harnessHeader(u, "io", "time"))
	sb.WriteString("var _ io.Reader\nvar _ = time.RFC3339\n\n")
	sb.WriteString(`// verifReader20 is a body reader that is neither an io.WriterTo nor backed by
// a standard reader type (a streaming body).
type verifReader20 struct {
	s   string
	off int
}

func (r *verifReader20) Read(p []byte) (int, error) {
	if r.off >= len(r.s) {
		return 0, io.EOF
	}
	n := copy(p, r.s[r.off:])
	r.off += n
	return n, nil
}
func (r *verifReader20) Close() error { return nil }

`)
	var db strings.Builder
	emitDocBuilders(&db, s)
	sb.WriteString(strings.ReplaceAll(db.String(), "verifC08Doc_", "verifC20Doc_"))
	all := g.allStructTypes()
	var wf strings.Builder
	g.emitWF(&wf, all, s)
	sb.WriteString(strings.ReplaceAll(wf.String(), "verifWF_", "verifC20WF_"))
	codec := map[string]bool{}
	for _, t := range all {
		codec[t] = true
	}
	creds := specCreds(s)
	n := 0
	for _, op := range s.Ops {
		idx, h, ok := opHandler(u, op)
		if !ok {
			continue
		}
		// ---------------------------------------------------------- (1) raw requests
		n++
		fmt.Fprintf(&sb, "// %s %s\nfunc VerifC20Req_Op%d() {\n", op.Method, op.Tmpl.Raw, idx)
		emitAPISetup(&sb, u, func(i int, gh *GenHandler) string { return "\t\tr.Parse()\n" })
		var build strings.Builder
		build.WriteString("\t\thdr := http.Header{}\n\t\tquery := url.Values{}\n")
		for k, c := range creds {
			if c.Kind == "unsupported" {
				continue
			}
			fmt.Fprintf(&sb, "\tcredPresent%d := vrt.Bool(\"cred_%s_present\")\n\tcredVal%d := vrt.String(\"cred_%s\", 8)\n", k, c.Scheme, k, c.Scheme)
			fmt.Fprintf(&build, "\t\tif credPresent%d {\n", k)
			switch c.Kind {
			case "bearer", "apikey-header":
				fmt.Fprintf(&build, "\t\t\thdr[%q] = []string{credVal%d}\n", canonHeader(c.Name), k)
			case "apikey-query":
				fmt.Fprintf(&build, "\t\t\tquery[%q] = []string{credVal%d}\n", c.Name, k)
			}
			build.WriteString("\t\t}\n")
			if f := secField(u, c); f != "" {
				fmt.Fprintf(&sb, "\tverdict%d := vrt.Bool(\"verdict_%d\")\n\tif vrt.Bool(\"authenticator_%s_installed\") {\n\t\tapi.%s = func(r *http.Request, token string) (*http.Request, bool) { return r, verdict%d }\n\t}\n", k, k, c.Scheme, f, k)
			}
		}
		var prms []*ParamRef
		for _, p := range op.Params {
			if p.In == "query" || p.In == "header" {
				prms = append(prms, p)
			}
		}
		if len(prms) > 0 {
			fmt.Fprintf(&sb, "\tdesignated := vrt.Choose(\"designated_parameter\", %d)\n\thasParam := vrt.Bool(\"has_param\")\n\ttwoValues := vrt.Bool(\"two_values\")\n\tval0 := vrt.String(\"val0\", 8)\n\tval1 := vrt.String(\"val1\", 8)\n", len(prms))
			build.WriteString("\t\tif hasParam {\n\t\t\tvals := []string{val0}\n\t\t\tif twoValues {\n\t\t\t\tvals = []string{val0, val1}\n\t\t\t}\n\t\t\tswitch designated {\n")
			for k, p := range prms {
				target := fmt.Sprintf("query[%q]", p.Name)
				if p.In == "header" {
					target = fmt.Sprintf("hdr[%q]", canonHeader(p.Name))
				}
				fmt.Fprintf(&build, "\t\t\tcase %d:\n\t\t\t\t%s = vals\n", k, target)
			}
			build.WriteString("\t\t\t}\n\t\t}\n")
		}
		ref, hasBody, _ := bodySchemaRef(s, op)
		sb.WriteString("\tbodyText := \"\"\n\thasBody := false\n")
		if hasBody {
			nch := 3
			if ref != "" {
				nch = 4
			}
			fmt.Fprintf(&sb, "\tswitch vrt.Choose(\"body_shape\", %d) {\n\tcase 1:\n\t\thasBody, bodyText = true, \"{\"\n\tcase 2:\n\t\thasBody, bodyText = true, vrt.JSONAny(\"body\")\n", nch)
			if ref != "" {
				fmt.Fprintf(&sb, "\tcase 3:\n\t\thasBody, bodyText = true, %s(\"d\", true)\n", strings.ReplaceAll(docFuncName(ref), "verifC08Doc_", "verifC20Doc_"))
			}
			sb.WriteString("\t}\n")
		}
		build.WriteString("\t\tvar body io.ReadCloser = http.NoBody\n\t\tif hasBody {\n\t\t\tbody = io.NopCloser(strings.NewReader(bodyText))\n\t\t}\n")
		fmt.Fprintf(&build, "\t\tw := newVerifRec()\n\t\tu := &url.URL{Path: %q}\n\t\tvrt.SetQuery(u, query)\n\t\tr := &http.Request{Method: %q, URL: u, Header: hdr, Body: body}\n\t\tapi.ServeHTTP(w, r)\n", concreteOpPath(u, op), op.Method)
		// raw requests: objects taken from a sync.Pool may carry what another request left in them
		sb.WriteString("\tvrt.PoolLeftovers(true)\n\tvrt.Shared(api)\n\tvrt.Enter()\n\tvrt.Concurrent(func() {\n" + build.String() + "\t})\n}\n\n")

		// ---------------------------------------------------------- (2) responses
		if h.WriteM == "" {
			continue
		}
		var impls []string
		for _, t := range g.ResponseImplementers(h.WriteM) {
			if t == "verifResp" {
				continue
			}
			if responseHasReaderBody(g, t) {
				// the reader is supplied by the harness; the other fields must be plain
				custom := false
				for _, f := range g.structFields(t) {
					if f[0] != "Body" && g.Types[f[1]] != nil && g.usesCustomTypes(f[1], map[string]bool{}) {
						custom = true
					}
				}
				if !custom {
					impls = append(impls, t)
				}
				continue
			}
			if !g.usesCustomTypes(t, map[string]bool{}) {
				impls = append(impls, t)
			}
		}
		emitRespDraw := func(readers bool) (use []string) {
			for _, t := range impls {
				if responseHasReaderBody(g, t) && !readers {
					continue
				}
				use = append(use, t)
			}
			for k, t := range use {
				fmt.Fprintf(&sb, "\tvar v%d %s\n", k, t)
			}
			fmt.Fprintf(&sb, "\traw := vrt.String(\"raw_body\", 6)\n\t_ = raw\n\timpl := vrt.Choose(\"implementer\", %d)\n\tswitch impl {\n", len(use))
			for k, t := range use {
				fmt.Fprintf(&sb, "\tcase %d:\n\t\tvrt.Arbitrary(&v%d, \"v\")\n", k, k)
				for _, f := range g.structFields(t) {
					switch {
					case f[0] == "Body" && codec[f[1]]:
						fmt.Fprintf(&sb, "\t\tvrt.Assume(verifC20WF_%s(v%d.Body))\n", f[1], k)
					case f[0] == "Code":
						fmt.Fprintf(&sb, "\t\tvrt.Assume(v%d.Code >= 100 && v%d.Code <= 599)\n", k, k)
					}
				}
			}
			sb.WriteString("\t}\n")
			return use
		}
		emitRespHandler := func(use []string, parse bool) {
			fmt.Fprintf(&sb, "\tapi.%s = func(ctx context.Context, r %s) %s {\n", h.Field, h.ReqType, h.RespType)
			if parse {
				sb.WriteString("\t\tr.Parse()\n")
			}
			sb.WriteString("\t\tswitch impl {\n")
			for k, t := range use {
				if responseHasReaderBody(g, t) {
					fmt.Fprintf(&sb, "\t\tcase %d:\n\t\t\tx := v%d\n\t\t\tx.Body = &verifReader20{s: raw}\n\t\t\treturn x\n", k, k)
				} else {
					fmt.Fprintf(&sb, "\t\tcase %d:\n\t\t\treturn v%d\n", k, k)
				}
			}
			sb.WriteString("\t\t}\n\t\treturn verifResp{}\n\t}\n")
		}
		if len(impls) > 0 {
			n++
			fmt.Fprintf(&sb, "// responses of %s %s\nfunc VerifC20Resp_Op%d() {\n", op.Method, op.Tmpl.Raw, idx)
			use := emitRespDraw(true)
			emitAPISetup(&sb, u, func(i int, gh *GenHandler) string { return "" })
			emitRespHandler(use, false)
			for _, f := range u.Gen.SecFields {
				fmt.Fprintf(&sb, "\tapi.%s = func(r *http.Request, token string) (*http.Request, bool) { return r, true }\n", f)
			}
			sb.WriteString("\tvrt.Shared(api)\n\tvrt.Enter()\n\tvrt.Concurrent(func() {\n\t\thdr := http.Header{}\n\t\tquery := url.Values{}\n")
			var cb strings.Builder
			for _, c := range creds {
				switch c.Kind {
				case "bearer":
					cb.WriteString("\t\thdr[\"Authorization\"] = []string{\"Bearer t\"}\n")
				case "apikey-header":
					fmt.Fprintf(&cb, "\t\thdr[%q] = []string{\"k\"}\n", canonHeader(c.Name))
				case "apikey-query":
					fmt.Fprintf(&cb, "\t\tquery[%q] = []string{\"k\"}\n", c.Name)
				}
			}
			sb.WriteString(cb.String())
			fmt.Fprintf(&sb, "\t\tw := newVerifRec()\n\t\tu := &url.URL{Path: %q}\n\t\tvrt.SetQuery(u, query)\n\t\tr := &http.Request{Method: %q, URL: u, Header: hdr, Body: http.NoBody}\n\t\tapi.ServeHTTP(w, r)\n\t})\n}\n\n", concreteOpPath(u, op), op.Method)
		}

		// ---------------------------------------------------------- (3) client calls
		if !g.HasClient {
			continue
		}
		exists, takes := g.clientMethod(h.Base)
		if !exists || !takes || !h.HasParams {
			continue
		}
		if g.usesCustomTypes(h.Base+"Params", map[string]bool{}) || paramsBodyIsReader(g, h.Base) {
			continue
		}
		if g.paramCount(h.Base) > 9 {
			continue
		}
		n++
		fmt.Fprintf(&sb, "// client call of %s %s\nfunc VerifC20Call_Op%d() {\n\tvar sent %sParams\n\tvrt.Arbitrary(&sent, \"sent\")\n", op.Method, op.Tmpl.Raw, idx, h.Base)
		emitParamDomain(&sb, g, h.Base, "sent", "verifC20WF_", codec)
		use := emitRespDraw(false)
		emitAPISetup(&sb, u, func(i int, gh *GenHandler) string { return "" })
		emitRespHandler(use, true)
		for _, f := range u.Gen.SecFields {
			fmt.Fprintf(&sb, "\tapi.%s = func(r *http.Request, token string) (*http.Request, bool) { return r, true }\n", f)
		}
		emitTransport(&sb, u)
		fmt.Fprintf(&sb, "\tvrt.Shared(api, client)\n\tvrt.Enter()\n\tvrt.Concurrent(func() {\n\t\tclient.%s(context.Background(), sent)\n\t})\n}\n\n", h.Base)
	}
	// ---------------------------------------------------------- (4) CORS preflight
	if g.HasCORS {
		n++
		fmt.Fprintf(&sb, "// preflight requests (and any other request line) with the CORS hook installed\nfunc VerifC20Preflight() {\n\tpath := vrt.String(\"path\", %d)\n\tmethod := vrt.String(\"method\", 8)\n", pathBound(s, 16))
		emitAPISetup(&sb, u, func(i int, gh *GenHandler) string { return "" })
		for _, f := range u.Gen.SecFields {
			fmt.Fprintf(&sb, "\tapi.%s = func(r *http.Request, token string) (*http.Request, bool) { return r, true }\n", f)
		}
		sb.WriteString("\tapi.CORSHandler = func(ms, hs []string) http.Handler {\n\t\treturn http.HandlerFunc(func(w http.ResponseWriter, r *http.Request) { w.WriteHeader(204) })\n\t}\n")
		sb.WriteString("\tvrt.Shared(api)\n\tvrt.Enter()\n\tvrt.Concurrent(func() {\n\t\tw := newVerifRec()\n\t\tu := &url.URL{Path: path}\n\t\tr := &http.Request{Method: method, URL: u, Header: http.Header{}, Body: http.NoBody}\n\t\tapi.ServeHTTP(w, r)\n\t})\n}\n\n")
	}
	if n == 0 {
		return 0, nil
	}
	return n, os.WriteFile(filepath.Join(u.Dir, "zz_verif_c20.go"), []byte(sb.String()), 0o644)
}
