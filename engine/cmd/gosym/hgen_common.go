package main

import (
	"fmt"
	"os"
	"path/filepath"
	"sort"
	"strings"
)

// commonHarness writes zz_verif_common.go: recorder, generic response, helpers.
func writeCommonHarness(u *PkgUnit) error {
	var sb strings.Builder
	sb.WriteString("//go:build verif\n\npackage " + u.Gen.Name + "\n\n")
	sb.WriteString(`import (
	"net/http"
	"net/url"
	"strings"

	"vscratch/vrt"
)

var _ = strings.HasPrefix
var _ = url.Values{}
var _ = vrt.Assume

// verifRec is a recording http.ResponseWriter (executed symbolically and natively alike).
type verifRec struct {
	hdr    http.Header
	status int
	nWH    int
	nWrite int
	body   string
}

func newVerifRec() *verifRec { return &verifRec{hdr: http.Header{}} }

func (r *verifRec) Header() http.Header { return r.hdr }
func (r *verifRec) WriteHeader(c int) {
	if r.nWH == 0 {
		r.status = c
	}
	r.nWH++
}
func (r *verifRec) Write(b []byte) (int, error) {
	if r.nWH == 0 {
		r.WriteHeader(200)
	}
	r.nWrite++
	r.body += string(b)
	return len(b), nil
}

// verifMarker is a handler that records that it ran and answers with a marker status.
type verifMarker struct {
	ran    *int
	status int
}

func (m verifMarker) ServeHTTP(w http.ResponseWriter, r *http.Request) {
	*m.ran = *m.ran + 1
	w.WriteHeader(m.status)
}

// verifResp satisfies every operation's response interface of this package.
type verifResp struct{}

`)
	seen := map[string]bool{}
	for _, h := range u.Gen.Handlers {
		if h.WriteM == "" || seen[h.WriteM] {
			continue
		}
		seen[h.WriteM] = true
		fmt.Fprintf(&sb, "func (verifResp) %s(w http.ResponseWriter) { w.WriteHeader(299) }\n", h.WriteM)
	}
	return os.WriteFile(filepath.Join(u.Dir, "zz_verif_common.go"), []byte(sb.String()), 0o644)
}

// opHandler maps a spec operation to the generated handler labelled with the
// same (template, method). ok=false when the generated package has none.
func opHandler(u *PkgUnit, op *OpRef) (idx int, h *GenHandler, ok bool) {
	for i, gh := range u.Gen.Handlers {
		if gh.Path == op.Tmpl.Raw && gh.Method == op.Method {
			return i + 1, gh, true
		}
	}
	return 0, nil, false
}

// credential carriers the spec's security schemes read
type credRef struct {
	Scheme string
	Kind   string // "bearer","apikey-header","apikey-query","unsupported"
	Name   string // header / query name
}

func specCreds(s *SpecRef) []credRef {
	var out []credRef
	schemes := asM(asM(s.Doc["components"])["securitySchemes"])
	var names []string
	for k := range schemes {
		names = append(names, k)
	}
	sort.Strings(names)
	for _, n := range names {
		sc := s.Resolve(asM(schemes[n]))
		c := credRef{Scheme: n, Kind: "unsupported"}
		switch asS(sc["type"]) {
		case "http":
			if strings.EqualFold(asS(sc["scheme"]), "bearer") {
				c.Kind = "bearer"
				c.Name = "Authorization"
			}
		case "apiKey":
			c.Name = asS(sc["name"])
			switch asS(sc["in"]) {
			case "header":
				c.Kind = "apikey-header"
			case "query":
				c.Kind = "apikey-query"
			}
		}
		out = append(out, c)
	}
	return out
}

// emitMatchFuncs writes the reference matcher of every template:
//   verifMatch<k>(p string) (ok bool, seg0, seg1 ... string)
// It walks the request path once: base path, then per segment a "/" followed by
// the literal bytes / a maximal "/"-free run; the path must end after the last
// segment. Independent of the generated trie.
func emitMatchFuncs(sb *strings.Builder, s *SpecRef) {
	for k, t := range s.Tmpls {
		nvars := 0
		for _, sg := range t.Segs {
			if sg.IsVar {
				nvars++
			}
		}
		rets := "ok bool"
		for i := 0; i < nvars; i++ {
			rets += fmt.Sprintf(", v%d string", i)
		}
		fmt.Fprintf(sb, "// template %q (rank %d)\nfunc verifMatch%d(p string) (%s) {\n", t.Raw, t.Rank, k, rets)
		if s.BasePath != "" {
			fmt.Fprintf(sb, "\tif !strings.HasPrefix(p, %q) {\n\t\treturn\n\t}\n\tp = p[%d:]\n", s.BasePath, len(s.BasePath))
		}
		vi := 0
		for i, sg := range t.Segs {
			sb.WriteString("\tif !strings.HasPrefix(p, \"/\") {\n\t\treturn\n\t}\n\tp = p[1:]\n")
			if sg.IsVar {
				fmt.Fprintf(sb, "\t{\n\t\ti := strings.IndexByte(p, '/')\n\t\tif i < 0 {\n\t\t\ti = len(p)\n\t\t}\n\t\tv%d = p[:i]\n\t\tp = p[i:]\n\t}\n", vi)
				vi++
			} else if sg.Lit != "" {
				fmt.Fprintf(sb, "\tif !strings.HasPrefix(p, %q) {\n\t\treturn\n\t}\n\tp = p[%d:]\n", sg.Lit, len(sg.Lit))
			}
			_ = i
		}
		sb.WriteString("\tif len(p) != 0 {\n\t\treturn\n\t}\n\tok = true\n\treturn\n}\n\n")
	}
}

func blanks(n int) string {
	s := ""
	for i := 0; i < n; i++ {
		s += ", _"
	}
	return s
}

func nVars(t *TmplRef) int {
	n := 0
	for _, sg := range t.Segs {
		if sg.IsVar {
			n++
		}
	}
	return n
}
