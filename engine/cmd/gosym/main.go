package main

import (
	"fmt"
	"os"
)

func main() {
	if len(os.Args) < 2 {
		fmt.Fprintln(os.Stderr, "usage: gosym run|check ...")
		os.Exit(2)
	}
	switch os.Args[1] {
	case "run":
		os.Exit(cmdRun(os.Args[2:]))
	case "check":
		os.Exit(cmdCheck(os.Args[2:]))
	default:
		fmt.Fprintln(os.Stderr, "unknown subcommand", os.Args[1])
		os.Exit(2)
	}
}
