package main

import (
	"go/types"
	"sort"
	"strings"

	"golang.org/x/tools/go/callgraph/cha"
	"golang.org/x/tools/go/ssa"
	"golang.org/x/tools/go/ssa/ssautil"
)

type mapSite struct {
	Pos       string `json:"pos"`
	Fn        string `json:"function"`
	Covered   bool   `json:"covered_by_a_harness"`
	Reachable bool   `json:"reachable_from_generate"`
	Other     string `json:"other_nondeterminism,omitempty"`
}

// mapRangeSites scans goag's own packages for `range` over a map (and for other
// sources of per-run nondeterminism) and says which sites lie in functions that
// the harnesses executed, and which are reachable from Generate.
func mapRangeSites(prog *ssa.Program, executed map[string]int) []mapSite {
	own := func(f *ssa.Function) bool {
		pkg := f.Pkg
		if pkg == nil && f.Origin() != nil {
			pkg = f.Origin().Pkg
		}
		if pkg == nil {
			return false
		}
		p := pkg.Pkg.Path()
		return strings.HasPrefix(p, "github.com/vkd/goag") && !strings.Contains(p, "/tests/") && !strings.Contains(p, "/examples/") && !strings.HasSuffix(p, "/vrt")
	}
	// reachability from Generate* (CHA call graph)
	reach := map[*ssa.Function]bool{}
	cg := cha.CallGraph(prog)
	var roots []*ssa.Function
	for f := range ssautil.AllFunctions(prog) {
		if own(f) && (strings.Contains(f.String(), "goag.Generator).Generate") || f.String() == "github.com/vkd/goag/cmd/goag.main") {
			roots = append(roots, f)
		}
	}
	var visit func(f *ssa.Function)
	visit = func(f *ssa.Function) {
		if reach[f] {
			return
		}
		reach[f] = true
		if n := cg.Nodes[f]; n != nil {
			for _, e := range n.Out {
				visit(e.Callee.Func)
			}
		}
		for _, af := range f.AnonFuncs {
			visit(af)
		}
	}
	for _, r := range roots {
		visit(r)
	}
	var out []mapSite
	for f := range ssautil.AllFunctions(prog) {
		if !own(f) || strings.Contains(f.String(), "Verif") || strings.Contains(f.String(), "verif") {
			continue
		}
		name := f.String()
		okey := name
		if o := f.Origin(); o != nil {
			okey = o.String()
		}
		_, cov := executed[name]
		if !cov {
			for k := range executed {
				if k == okey || strings.HasPrefix(k, okey+"[") {
					cov = true
				}
			}
		}
		r := reach[f]
		if o := f.Origin(); o != nil && reach[o] {
			r = true
		}
		for _, b := range f.Blocks {
			for _, ins := range b.Instrs {
				switch in := ins.(type) {
				case *ssa.Range:
					if _, isMap := in.X.Type().Underlying().(*types.Map); isMap {
						pos := prog.Fset.Position(in.Pos())
						fn := pos.Filename
						if i := strings.Index(fn, "/repo/"); i >= 0 {
							fn = fn[i+6:]
						}
						out = append(out, mapSite{Pos: fn + ":" + itoa(pos.Line), Fn: okey, Covered: cov, Reachable: r})
					}
				case *ssa.Go:
					out = append(out, mapSite{Pos: prog.Fset.Position(in.Pos()).String(), Fn: okey, Covered: true, Reachable: r, Other: "go statement"})
				case *ssa.Select:
					out = append(out, mapSite{Pos: prog.Fset.Position(in.Pos()).String(), Fn: okey, Covered: true, Reachable: r, Other: "select"})
				case *ssa.Call:
					if cf := in.Call.StaticCallee(); cf != nil {
						cn := cf.String()
						if cn == "time.Now" || strings.HasPrefix(cn, "math/rand.") {
							out = append(out, mapSite{Pos: prog.Fset.Position(in.Pos()).String(), Fn: okey, Covered: true, Reachable: r, Other: cn})
						}
					}
				}
			}
		}
	}
	sort.Slice(out, func(i, j int) bool { return out[i].Pos < out[j].Pos })
	return out
}

func itoa(n int) string {
	if n == 0 {
		return "0"
	}
	s := ""
	for n > 0 {
		s = string(rune('0'+n%10)) + s
		n /= 10
	}
	return s
}
