package main

const c01WriteHarness = `//go:build verif

package goag

import (
	"path"

	"github.com/vkd/goag/vrt"
)

// VerifC01WriteToFile: if WriteToFile reports success, the file holds gofmt output
// (imports.Process is the contract "formatted output iff the source parses").
func VerifC01WriteToFile() {
	src := vrt.String("rendered", 4)
	parses := vrt.Bool("rendered_source_parses")
	vrt.SetRenderParses(parses)
	if !vrt.Symbolic() {
		src = "package x\n\nfunc F() {}\n"
		if !parses {
			src = "package x\n\nfunc {\n"
		}
	}
	vrt.FSSelect(1)
	vrt.FSSet("x.go", vrt.Bool("file_exists_before"), vrt.String("old_content", 3))
	err := WriteToFile([]byte(src), path.Join(vrt.FSDir(), "x.go"))
	if err == nil {
		vrt.Reach("reported-success")
		vrt.Assert(vrt.FSExists("x.go"), "WriteToFile reported success but wrote no file")
		vrt.Assert(vrt.IsFormatted(vrt.FSContent("x.go")), "WriteToFile reported success but the file is not formatted Go (the rendered source does not parse)")
	} else {
		vrt.Reach("reported-error")
	}
	vrt.FSCleanup()
}
`

func init() {
	register(&Prop{
		ID: "C01", Level: "other",
		Explanation: "C01 is claimed in part (DESIGN 4/C01). Decided by the solver: (1) goag.WriteToFile/RenderToFile over the file-system model with imports.Process as the contract 'formatted output iff the source parses': success implies every written file is formatter output; (2) the text-producing Go functions of the generator on symbolic spec-derived strings: PublicFieldName/Title/PrivateFieldName yield Go identifiers and agree where handler and client derive the same field, commentFunc / the field-comment expression keep free text inside // comments, encodeRawFileAsString (with C13). Not decided: that the ~120 template snippets type-check together for every feature combination (text/template + go/types are not encodable); what the pipeline observes there (every regenerated corpus package is loaded by go/packages in the other checks; a package that does not load makes that check inconclusive) is reported but is not a solver verdict.",
		Rule: "layer 1: one harness over the rendered bytes (opaque), whether they parse, the OS pre-state; layer 2: one harness per naming/comment function over all names/texts up to the byte bound; non-trivial = a path completed and reached an assertion",
		Assumptions: []string{
			"imports.Process returns formatted output iff its input parses, else an error (its documented behaviour)",
			"names: [A-Za-z][A-Za-z0-9_.-]* up to 6 (quick) / 7 (thorough) bytes; free text: printable ASCII + LF up to 6 / 7 bytes",
			"unicode.* / strings.Title / cases.Title are ASCII models, differentially tested against the real functions at the start of the run",
		},
		Build: func(c *Ctx) ([]RunSpec, error) {
			if err := c.repoHarness(".", "zz_verif_c01.go", c01WriteHarness); err != nil {
				return nil, err
			}
			rs := repoRunSpec(c, ".", "VerifC01")
			rs.Stubs = []string{"genfs"}
			specs := []RunSpec{rs}
			more, err := c01NamingSpecs(c)
			if err != nil {
				return nil, err
			}
			specs = append(specs, more...)
			// observation stage (layer 3, not decided): every corpus package the
			// generator reported success for is type-checked
			if err := prepare(c); err != nil {
				return nil, err
			}
			f := onlyFilter()
			c.Fixtures(f)
			genRouterFamily(c, f)
			genSecurityFamily(c, f)
			genParamFamily(c, f)
			genSchemaFamily(c, f)
			genResponseFamily(c, f)
			obs := stdRunSpec(c, "VerifNone")
			obs.LoadOnly = true
			return append(specs, obs), nil
		},
	})
}
