package main

import (
	"fmt"
	"os"
	"path/filepath"
	"regexp"
	"strings"

	"gosym/sym"

	"golang.org/x/text/cases"
	"golang.org/x/text/language"
)

// selfTestTitleModel: differential test of the ASCII model of
// cases.Title(language.Und, cases.NoLower) against the real function on all
// alphanumeric strings of <= 4 bytes over a small alphabet.
func selfTestTitleModel() error {
	c := cases.Title(language.Und, cases.NoLower)
	alpha := []byte("aZ3bQ0")
	var rec func(cur []byte, depth int) error
	rec = func(cur []byte, depth int) error {
		if got, want := sym.TitleFirstLetterModel(string(cur)), c.String(string(cur)); got != want {
			return fmt.Errorf("cases.Title model differs from the real function on %q: model %q, real %q", cur, got, want)
		}
		if depth == 4 {
			return nil
		}
		for _, a := range alpha {
			if err := rec(append(cur, a), depth+1); err != nil {
				return err
			}
		}
		return nil
	}
	return rec(nil, 0)
}

var reClientHdrName = regexp.MustCompile(`out\.FieldName = (\w+)\(s\.Name\)`)
var reHandlerHdrName = regexp.MustCompile(`fieldName := ([\w.]+(?:\([\w.]*\))?)`)

func c01NamingSpecs(c *Ctx) ([]RunSpec, error) {
	if err := selfTestTitleModel(); err != nil {
		return nil, err
	}
	n := tierInt(c, 6, 7)
	// which derivation feeds the client-side header field: read from the source
	src, err := os.ReadFile(filepath.Join(c.Repo, "generator", "parameters.go"))
	if err != nil {
		return nil, err
	}
	clientFn := "PublicFieldName"
	if i := strings.Index(string(src), "func NewHeaderParameter"); i >= 0 {
		if m := reClientHdrName.FindStringSubmatch(string(src)[i:]); m != nil {
			clientFn = m[1]
		}
	}
	h := fmt.Sprintf(`//go:build verif

package generator

import "github.com/vkd/goag/vrt"

func verifNameShape(s string) bool {
	if len(s) == 0 {
		return false
	}
	c := s[0]
	if !((c >= 'a' && c <= 'z') || (c >= 'A' && c <= 'Z')) {
		return false
	}
	for i := 1; i < len(s); i++ {
		c := s[i]
		if !((c >= 'a' && c <= 'z') || (c >= 'A' && c <= 'Z') || (c >= '0' && c <= '9') || c == '_' || c == '.' || c == '-') {
			return false
		}
	}
	return true
}

func verifExportedIdent(s string) bool {
	if len(s) == 0 {
		return false
	}
	if !(s[0] >= 'A' && s[0] <= 'Z') {
		return false
	}
	for i := 1; i < len(s); i++ {
		c := s[i]
		if !((c >= 'a' && c <= 'z') || (c >= 'A' && c <= 'Z') || (c >= '0' && c <= '9') || c == '_') {
			return false
		}
	}
	return true
}

// VerifC01PublicFieldName: every spec name of the dialect's shape becomes an exported Go identifier.
func VerifC01PublicFieldName() {
	s := vrt.String("name", %d)
	vrt.Assume(verifNameShape(s))
	vrt.Assert(verifExportedIdent(PublicFieldName(s)), "PublicFieldName does not yield an exported Go identifier")
}

func VerifC01Title() {
	s := vrt.String("name", %d)
	vrt.Assume(verifNameShape(s))
	vrt.Assert(verifExportedIdent(Title(s)), "Title does not yield an exported Go identifier")
}

// VerifC01HeaderField: the handler struct and the client address the same field
// for a header parameter (the client-side derivation is read from NewHeaderParameter).
func VerifC01HeaderField() {
	s := vrt.String("name", %d)
	vrt.Assume(verifNameShape(s))
	p := &HeaderParameter{Name: s, FieldName: %s(s), Type: Schema{}}
	h, _, err := NewHandlerHeaderParameter(p, Config{})
	vrt.Assert(err == nil, "NewHandlerHeaderParameter failed")
	vrt.Assert(h.FieldName == p.FieldName, "handler and client derive different Go field names for the same header parameter")
}

func verifCommentOK(r string) bool {
	// "// " + r must consist of // line comments only
	for i := 0; i < len(r); i++ {
		if r[i] == '\n' {
			if i+3 >= len(r)+1 || i+3 > len(r) || r[i+1] != '/' || r[i+2] != '/' {
				return false
			}
		}
	}
	return true
}

// VerifC01Comment: free text passed through the template's comment function stays inside // comments.
func VerifC01Comment() {
	s := vrt.String("text", %d)
	for i := 0; i < len(s); i++ {
		vrt.Assume((s[i] >= 0x20 && s[i] <= 0x7e) || s[i] == '\n')
	}
	r, err := commentFunc(s)
	vrt.Assert(err == nil, "commentFunc failed")
	vrt.Assert(verifCommentOK(r), "text escapes the // comment")
}
`, n, n, n, clientFn, n)
	if err := c.repoHarness("generator", "zz_verif_c01.go", h); err != nil {
		return nil, err
	}
	return []RunSpec{repoRunSpec(c, "generator", "VerifC01")}, nil
}
