package main

import "fmt"

func init() {
	register(&Prop{
		ID: "C02", Level: "model_checking",
		Rule: "one harness per operation; the returned response is a solver-chosen member of ALL named types of the generated package that carry the operation's unexported write method, with arbitrary field values; every documented response must be producible by some explored path (existence obligations)",
		Assumptions: []string{
			"the set of implementers is computed syntactically over the generated package (types in the user's own package cannot name the unexported method: Go's rule)",
			"header values other than presence/count are not compared (formatters are stubs); JSON bodies are judged by the C07 validator emitted from the YAML",
			"default responses carry a Code in 100..599",
		},
		Build: func(c *Ctx) ([]RunSpec, error) {
			if err := prepare(c); err != nil {
				return nil, err
			}
			f := onlyFilter()
			c.Fixtures(f)
			genResponseFamily(c, f)
			n := 0
			for _, u := range c.Pkgs {
				if !usable(u) {
					continue
				}
				k, err := genC02Harness(u)
				if err != nil {
					return nil, err
				}
				if k > 0 {
					if err := writeCommonHarness(u); err != nil {
						return nil, err
					}
					n += k
				}
			}
			if n == 0 {
				return nil, fmt.Errorf("no operation with responses")
			}
			rs := stdRunSpec(c, "VerifC02")
			rs.ArbWide = true
			return []RunSpec{rs}, nil
		},
	})
}
