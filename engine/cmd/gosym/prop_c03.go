package main

import (
	"fmt"
	"os"
	"path/filepath"
	"strings"
)

func boundsFor(id, tier string) map[string]interface{} {
	q := tier != "thorough"
	pick := func(a, b int) int {
		if q {
			return a
		}
		return b
	}
	b := map[string]interface{}{"unwind_per_block": 80, "solver_timeout_ms": pick(20000, 120000)}
	switch id {
	case "C03", "C05", "C16", "C14", "C11", "C17", "C13":
		minL := map[string][2]int{"C03": {24, 40}, "C05": {24, 40}, "C11": {24, 40}, "C16": {20, 32}, "C17": {20, 32}, "C14": {16, 32}, "C13": {16, 32}}[id]
		b["request_path_bytes"] = fmt.Sprintf("max(%d, base path + longest template + 6)", pick(minL[0], minL[1]))
		b["method_bytes"] = 8
		b["outside"] = "longer request paths / methods; specs outside the corpus families"
	}
	switch id {
	case "C01":
		b["rendered_source_bytes"] = 4
		b["name_bytes"] = pick(6, 7)
		b["free_text_bytes"] = pick(6, 7)
		b["outside"] = "longer names/texts; joint type-checking of template snippets (observed on the corpus, not decided)"
	case "C02", "C10":
		b["string_bytes"] = 6
		b["collection_items"] = pick(2, 2)
		b["status_range"] = "100..599"
		b["outside"] = "longer strings, larger collections, reader bodies (C10), user-written custom types"
	case "C04":
		b["parameter_text_bytes"] = map[string]int{"int": pick(12, 21), "int32": 12, "time": 8, "other": 6}
		b["values_per_parameter"] = "0, 1 or 2"
		b["designated_parameters_per_request"] = 1
		b["outside"] = "two parameters deviating at once; more than two values; longer texts"
	case "C05":
		b["segment_bytes"] = "whatever fits the request path bound"
	case "C06", "C07":
		b["string_bytes"] = 6
		b["collection_items"] = pick(2, 2)
		b["nesting_depth"] = pick(2, 3)
		b["schema_family_packages"] = pick(24, 48)
		b["outside"] = "longer strings, larger collections, deeper nesting, schemas outside the S family and the fixtures"
	case "C08":
		b["document"] = "built from the schema: optional members present/absent, null where allowed, arrays of 0..1 items, one extra member, ONE designated deviation (kind swap / dropped required member) per document"
		b["string_bytes"] = 6
		b["schema_family_packages"] = pick(12, 24)
		b["outside"] = "documents with two deviations, arrays of more than one item, key-order permutations (the decoder goes through a map)"
	case "C09":
		b["string_bytes"] = 6
		b["collection_items"] = pick(2, 3)
		b["max_parameters_per_operation"] = pick(9, 0)
		b["outside"] = "operations with more parameters (quick), longer strings, custom types, reader bodies"
	case "C12":
		b["map_entries"] = 3
		b["orders_per_range"] = "all n!"
		b["pipeline_designated_ranges"] = pick(1, 2)
		b["outside"] = "dependences that need more ranges to deviate at once; documents other than the harness literals"
	case "C13":
		b["file_bytes"] = pick(4, 5)
		b["alphabet"] = "all 256 byte values"
		b["middlewares"] = "0..2"
	case "C14":
		b["designated_parameters_per_request"] = 1
		b["parameter_text_bytes"] = 8
		b["body_shapes"] = "none, truncated, any scalar / empty collection, schema-derived document with one deviation"
		b["outside"] = "raw byte bodies that are not built from JSON tokens; panics inside the standard library"
	case "C15":
		b["string_bytes"] = pick(6, 9)
		b["nil_choices"] = "every optional pointer / map / interface of the kin-openapi node handed to a constructor"
		b["outside"] = "template execution; whole-document mutation"
	case "C16":
		b["middlewares"] = fmt.Sprintf("0..%d", pick(3, 4))
	case "C18":
		b["rewrites"] = pick(2, 3)
		b["parameter_text_bytes"] = 6
		b["response_collections"] = 1
		b["schema_family_packages"] = pick(12, 24)
		b["large_documents"] = fmt.Sprintf("schemas with more than %d member positions: valid documents only", pick(6, 9))
		b["outside"] = "rewrites the generator rejects or that do not compile; values where the Go shapes differ"
	case "C19":
		b["owned_names"] = 5
		b["foreign_names"] = 2
		b["pre_states"] = "all 2^7 existence combinations x content tags"
		b["invocations"] = "all flag combinations"
		b["exhaustive_within_model"] = true
	case "C20":
		b["as"] = "C14 (requests), C02 (responses), C09/C10 (client calls)"
		b["race_replay"] = "4 goroutines x 50 requests"
		b["pool_leftovers"] = "one designated sync.Pool.Get per path, raw-request harnesses"
		b["outside"] = "goroutine schedules (argued from write confinement); sync primitives other than sync.Pool"
	}
	return b
}

func onlyFilter() func(string) bool {
	only := os.Getenv("VERIF_ONLY")
	if only == "" {
		return nil
	}
	if strings.HasPrefix(only, "=") {
		return func(n string) bool { return n == only[1:] || "f_"+n == only[1:] || "e_"+n == only[1:] }
	}
	return func(n string) bool { return strings.Contains(n, only) }
}

// usable: package generated and has an API struct
func usable(u *PkgUnit) bool {
	return u.GenErr == "" && u.Gen != nil && u.Spec != nil && len(u.Gen.Handlers) > 0
}

func stdRunSpec(c *Ctx, prefix string) RunSpec {
	return RunSpec{Dir: c.Mod, Patterns: []string{"./pkgs/..."}, Prefix: prefix, TargetPrefixes: []string{"github.com/vkd/goag/tests/", "github.com/vkd/goag/examples/"},
		ReplayPkgDir: func(h string) string {
			// vscratch/pkgs/<name>.VerifX
			i := strings.Index(h, "pkgs/")
			if i < 0 {
				return ""
			}
			rest := h[i+5:]
			if j := strings.Index(rest, "."); j >= 0 {
				rest = rest[:j]
			}
			return filepath.Join(c.Mod, "pkgs", rest)
		}}
}

func prepare(c *Ctx) error {
	if err := c.BuildGoag(); err != nil {
		return err
	}
	return c.InitMod()
}

func init() {
	register(&Prop{
		ID: "C03", Level: "model_checking",
		Rule: "one harness per corpus package; a case is one symbolic path through ServeHTTP/route* + the reference matcher; a harness counts as non-trivial when at least one path ran to completion and reached an assertion",
		Assumptions: []string{
			"r.URL.Path is the decoded path as net/http delivers it (DESIGN 11.1)",
			"stubs: context.WithValue/Value, Request.WithContext, http.NotFoundHandler/Error, Header.Set (contract models, DESIGN 2.4)",
			"specs are the regenerated fixtures plus the router family R (DESIGN 3.2); other specs are outside",
		},
		Build: func(c *Ctx) ([]RunSpec, error) {
			if err := prepare(c); err != nil {
				return nil, err
			}
			f := onlyFilter()
			c.Fixtures(f)
			genRouterFamily(c, f)
			L := 24
			if c.Tier == "thorough" {
				L = 40
			}
			n := 0
			for _, u := range c.Pkgs {
				if !usable(u) {
					continue
				}
				if err := writeCommonHarness(u); err != nil {
					return nil, err
				}
				if err := genC03Harness(u, routeOpts{Prop: "C03", L: L}); err != nil {
					return nil, err
				}
				if m := u.Meta["missing_handlers"]; m != "" {
					c.Notes = append(c.Notes, fmt.Sprintf("%s: generated package has no handler labelled for spec operation(s) %s", u.Name, m))
				}
				n++
			}
			if n == 0 {
				return nil, fmt.Errorf("no usable corpus package")
			}
			return []RunSpec{stdRunSpec(c, "VerifC03")}, nil
		},
	})
}
