package main

import (
	"fmt"
	"os"
	"path/filepath"
	"strings"
)

func boundsFor(id, tier string) map[string]interface{} {
	q := tier != "thorough"
	pick := func(a, b int) int {
		if q {
			return a
		}
		return b
	}
	b := map[string]interface{}{"unwind_per_block": 80, "solver_timeout_ms": pick(20000, 120000)}
	switch id {
	case "C03", "C05", "C16", "C14", "C11", "C17":
		b["request_path_bytes"] = pick(24, 40)
		b["method_bytes"] = 8
		b["outside"] = "longer request paths / methods; specs outside the corpus families"
	}
	return b
}

func onlyFilter() func(string) bool {
	only := os.Getenv("VERIF_ONLY")
	if only == "" {
		return nil
	}
	if strings.HasPrefix(only, "=") {
		return func(n string) bool { return n == only[1:] || "f_"+n == only[1:] || "e_"+n == only[1:] }
	}
	return func(n string) bool { return strings.Contains(n, only) }
}

// usable: package generated and has an API struct
func usable(u *PkgUnit) bool {
	return u.GenErr == "" && u.Gen != nil && u.Spec != nil && len(u.Gen.Handlers) > 0
}

func stdRunSpec(c *Ctx, prefix string) RunSpec {
	return RunSpec{Dir: c.Mod, Patterns: []string{"./pkgs/..."}, Prefix: prefix, TargetPrefixes: []string{"github.com/vkd/goag/tests/", "github.com/vkd/goag/examples/"},
		ReplayPkgDir: func(h string) string {
			// vscratch/pkgs/<name>.VerifX
			i := strings.Index(h, "pkgs/")
			if i < 0 {
				return ""
			}
			rest := h[i+5:]
			if j := strings.Index(rest, "."); j >= 0 {
				rest = rest[:j]
			}
			return filepath.Join(c.Mod, "pkgs", rest)
		}}
}

func prepare(c *Ctx) error {
	if err := c.BuildGoag(); err != nil {
		return err
	}
	return c.InitMod()
}

func init() {
	register(&Prop{
		ID: "C03", Level: "model_checking",
		Rule: "one harness per corpus package; a case is one symbolic path through ServeHTTP/route* + the reference matcher; a harness counts as non-trivial when at least one path ran to completion and reached an assertion",
		Assumptions: []string{
			"r.URL.Path is the decoded path as net/http delivers it (DESIGN 11.1)",
			"stubs: context.WithValue/Value, Request.WithContext, http.NotFoundHandler/Error, Header.Set (contract models, DESIGN 2.4)",
			"specs are the regenerated fixtures plus the router family R (DESIGN 3.2); other specs are outside",
		},
		Build: func(c *Ctx) ([]RunSpec, error) {
			if err := prepare(c); err != nil {
				return nil, err
			}
			f := onlyFilter()
			c.Fixtures(f)
			genRouterFamily(c, f)
			L := 24
			if c.Tier == "thorough" {
				L = 40
			}
			n := 0
			for _, u := range c.Pkgs {
				if !usable(u) {
					continue
				}
				if err := writeCommonHarness(u); err != nil {
					return nil, err
				}
				if err := genC03Harness(u, routeOpts{Prop: "C03", L: L}); err != nil {
					return nil, err
				}
				if m := u.Meta["missing_handlers"]; m != "" {
					c.Notes = append(c.Notes, fmt.Sprintf("%s: generated package has no handler labelled for spec operation(s) %s", u.Name, m))
				}
				n++
			}
			if n == 0 {
				return nil, fmt.Errorf("no usable corpus package")
			}
			return []RunSpec{stdRunSpec(c, "VerifC03")}, nil
		},
	})
}
