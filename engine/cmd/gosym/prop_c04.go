package main

import "fmt"

func init() {
	register(&Prop{
		ID: "C04", Level: "model_checking",
		Rule: "one harness per operation with query/header parameters; presence, cardinality (1 or 2 values) and the bytes of every value are symbolic; non-trivial = a path completed and reached an assertion",
		Assumptions: []string{
			"URL.Query() is the map installed by the harness; it never maps a key to an empty slice; header maps are keyed canonically (DESIGN 11.2)",
			"integer and boolean lexical spaces are exact models of strconv.ParseInt/ParseBool; number and date-time are uninterpreted (ok,value) functions of the bytes: the claim for them is 'fails iff the same parser with the declared width/layout fails on the same text'",
			"values <= 12 bytes for integers (21 thorough), 6-8 bytes otherwise; at most 2 values per key",
		},
		Build: func(c *Ctx) ([]RunSpec, error) {
			if err := prepare(c); err != nil {
				return nil, err
			}
			f := onlyFilter()
			c.Fixtures(f)
			genParamFamily(c, f)
			n := 0
			for _, u := range c.Pkgs {
				if !usable(u) {
					continue
				}
				k, err := genC04Harness(u, c.Tier)
				if err != nil {
					return nil, err
				}
				if k > 0 {
					if err := writeCommonHarness(u); err != nil {
						return nil, err
					}
					n += k
				}
			}
			if n == 0 {
				return nil, fmt.Errorf("no operation with query/header parameters")
			}
			return []RunSpec{stdRunSpec(c, "VerifC04")}, nil
		},
	})
}
