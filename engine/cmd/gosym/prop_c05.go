package main

import "fmt"

func routeCorpus(c *Ctx) error {
	if err := prepare(c); err != nil {
		return err
	}
	f := onlyFilter()
	c.Fixtures(f)
	genRouterFamily(c, f)
	return nil
}

func init() {
	register(&Prop{
		ID: "C05", Level: "model_checking",
		Rule: "one harness per corpus package having templated paths; a case is one symbolic path through router + new<Op>Params + reference segment matcher/parsers; non-trivial = a path completed and reached an assertion",
		Assumptions: []string{
			"r.URL.Path is the decoded path as net/http delivers it (DESIGN 11.1)",
			"strconv.ParseInt / ParseBool are exact byte-level models; ParseFloat and time.Parse are uninterpreted (ok,value) functions of the bytes (DESIGN 2.4): for number/date-time parameters the claim is 'same function of the same segment', not the lexical space itself",
			"the Go field of a path parameter is found by case/punctuation-insensitive name match",
		},
		Build: func(c *Ctx) ([]RunSpec, error) {
			if err := routeCorpus(c); err != nil {
				return nil, err
			}
			L := 24
			if c.Tier == "thorough" {
				L = 40
			}
			n := 0
			for _, u := range c.Pkgs {
				if !usable(u) {
					continue
				}
				k, err := genC05Harness(u, L)
				if err != nil {
					return nil, err
				}
				if k > 0 {
					if err := writeCommonHarness(u); err != nil {
						return nil, err
					}
					n++
				}
			}
			if n == 0 {
				return nil, fmt.Errorf("no corpus package with typed path parameters")
			}
			return []RunSpec{stdRunSpec(c, "VerifC05")}, nil
		},
	})
}
