package main

import "fmt"

func init() {
	register(&Prop{
		ID: "C06", Level: "model_checking",
		Rule: "one harness per generated schema type (type with MarshalJSON+UnmarshalJSON) of every corpus package; a case is one symbolic path over the value (every IsSet flag, scalars, collection shapes); non-trivial = a path completed and reached an assertion",
		Assumptions: []string{
			"encoding/json on primitives is a contract stub: it produces / accepts exactly the JSON token of the Go value (DESIGN 2.4); the generated MarshalJSON/UnmarshalJSON code itself is executed symbolically",
			"a oneOf value has exactly one variant set; additional-property keys differ from declared property names and from each other (DESIGN 11.5)",
			"collections have <= 2 entries, strings <= 6 bytes, map keys <= 4 bytes; times compared as instants, nil and empty collections identified (DESIGN 11.4)",
		},
		Build: func(c *Ctx) ([]RunSpec, error) {
			if err := prepare(c); err != nil {
				return nil, err
			}
			f := onlyFilter()
			c.Fixtures(f)
			genSchemaFamily(c, f)
			n := 0
			for _, u := range c.Pkgs {
				if u.GenErr != "" || u.Gen == nil {
					continue
				}
				k, err := genC06Harness(u)
				if err != nil {
					return nil, err
				}
				n += k
			}
			if n == 0 {
				return nil, fmt.Errorf("no generated schema type in the corpus")
			}
			return []RunSpec{stdRunSpec(c, "VerifC06")}, nil
		},
	})
}
