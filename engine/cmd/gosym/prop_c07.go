package main

import "fmt"

func init() {
	register(&Prop{
		ID: "C07", Level: "model_checking",
		Rule: "one harness per generated type that maps to a component schema; a case is one symbolic path over the value; the encoder output (tokenised into a tree) is judged by a structural validator emitted from the YAML schema; non-trivial = a path completed and reached an assertion",
		Assumptions: []string{
			"the validator covers: type/kind, required, declared names (strict), nullable, date-time format, array items, allOf (merged object), oneOf (exactly one variant), additionalProperties; numeric format ranges hold by Go typing",
			"same value space and stubs as C06",
		},
		Build: func(c *Ctx) ([]RunSpec, error) {
			if err := prepare(c); err != nil {
				return nil, err
			}
			f := onlyFilter()
			c.Fixtures(f)
			genSchemaFamily(c, f)
			n := 0
			for _, u := range c.Pkgs {
				if u.GenErr != "" || u.Gen == nil {
					continue
				}
				k, err := genC07Harness(u)
				if err != nil {
					return nil, err
				}
				n += k
			}
			if n == 0 {
				return nil, fmt.Errorf("no generated type maps to a component schema")
			}
			return []RunSpec{stdRunSpec(c, "VerifC07")}, nil
		},
	})
}
