package main

import "fmt"

func init() {
	register(&Prop{
		ID: "C08", Level: "model_checking",
		Rule: "one harness per generated type that maps to a component schema; the input document is built FROM the schema (presence of every property, JSON kind of every leaf, extra members, array lengths symbolic); non-trivial = a path completed and reached an assertion",
		Assumptions: []string{
			"documents: objects nested <= 2, arrays <= 2 items, leaf values of symbolic JSON kind (null/bool/integer/fraction/string/empty array/empty object), date-time leaves also as the text of an arbitrary instant; one optional extra member where the schema has additionalProperties",
			"json.Unmarshal(raw,&primitive) is the contract 'error iff JSON kind mismatch (null is a no-op)'; strings.Contains(err.Error(), name) is how 'the error names the property' is read",
			"single-fault claims are made at the top level of object schemas only",
		},
		Build: func(c *Ctx) ([]RunSpec, error) {
			if err := prepare(c); err != nil {
				return nil, err
			}
			f := onlyFilter()
			c.Fixtures(f)
			genSchemaFamily(c, f)
			n := 0
			for _, u := range c.Pkgs {
				if u.GenErr != "" || u.Gen == nil {
					continue
				}
				k, err := genC08Harness(u)
				if err != nil {
					return nil, err
				}
				n += k
			}
			if n == 0 {
				return nil, fmt.Errorf("no generated type maps to a component schema")
			}
			return []RunSpec{stdRunSpec(c, "VerifC08")}, nil
		},
	})
}
