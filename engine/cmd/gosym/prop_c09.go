package main

import "fmt"

func clientCorpus(c *Ctx) error {
	if err := prepare(c); err != nil {
		return err
	}
	f := onlyFilter()
	c.Fixtures(f)
	genParamFamily(c, f)
	genResponseFamily(c, f)
	genRouterFamily(c, f)
	return nil
}

func init() {
	register(&Prop{
		ID: "C09", Level: "model_checking",
		Rule: "one harness per operation of every corpus package generated with a client; the Params value handed to Client.<Op> is arbitrary (every Maybe flag, scalar, collection shape); the client code, the transport stub, ServeHTTP and new<Op>Params are executed on it and the handler's Parse() result is compared field-wise",
		Assumptions: []string{
			"transport contract: URL.Path is the concatenation of the unescaped path pieces, Query() the map the client filled, headers canonical; a value formatted with F and parsed with F's inverse at the same width/layout is itself (PathEscape/unescape, FormatInt/ParseInt, FormatFloat/ParseFloat, Time.Format/time.Parse, encoding/json): a mismatched pair does not cancel and is reported",
			"quick tier: operations with more than 9 parameters are skipped (all are covered in the thorough tier); path values are non-empty and '/'-free; array parameters that are set are non-empty (DESIGN 11.1, 11.3); operations whose Params use user-written custom types or raw reader bodies are skipped",
			"wire validity under a third-party validator is replaced by: the request is dispatched to the operation it was built for and parses (C03-C05 decide what that means)",
		},
		Build: func(c *Ctx) ([]RunSpec, error) {
			if err := clientCorpus(c); err != nil {
				return nil, err
			}
			n := 0
			for _, u := range c.Pkgs {
				if !usable(u) {
					continue
				}
				k, err := genC09Harness(u, tierInt(c, 9, 0))
				if err != nil {
					return nil, err
				}
				if k > 0 {
					if err := writeCommonHarness(u); err != nil {
						return nil, err
					}
					n += k
				}
			}
			if n == 0 {
				return nil, fmt.Errorf("no client operation with parameters")
			}
			return []RunSpec{stdRunSpec(c, "VerifC09")}, nil
		},
	})
	register(&Prop{
		ID: "C10", Level: "model_checking",
		Rule: "two harnesses per operation: (1) the handler returns a solver-chosen documented response with arbitrary fields, the client's reconstruction is compared with it; (2) the transport returns an arbitrary status 100..599 outside the documented set",
		Assumptions: []string{
			"same transport contract as C09 (formatter/parser pairs cancel only when they match); responses with raw reader bodies or user-written custom types are skipped",
			"array headers that are set carry at least one item; a default response is sent with a code that is not one of the documented statuses",
		},
		Build: func(c *Ctx) ([]RunSpec, error) {
			if err := clientCorpus(c); err != nil {
				return nil, err
			}
			n := 0
			for _, u := range c.Pkgs {
				if !usable(u) {
					continue
				}
				k, err := genC10Harness(u)
				if err != nil {
					return nil, err
				}
				if k > 0 {
					if err := writeCommonHarness(u); err != nil {
						return nil, err
					}
					n += k
				}
			}
			if n == 0 {
				return nil, fmt.Errorf("no client operation")
			}
			rs := stdRunSpec(c, "VerifC10")
			rs.ArbWide = true
			return []RunSpec{rs}, nil
		},
	})
}
