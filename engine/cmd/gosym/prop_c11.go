package main

import (
	"fmt"
	"strings"
)

func secFixture(n string) bool {
	return strings.Contains(n, "security") || strings.Contains(n, "middleware") || strings.HasPrefix(n, "a_")
}

func init() {
	register(&Prop{
		ID: "C11", Level: "model_checking",
		Rule: "one harness per operation of every corpus package that declares security schemes; a case is one symbolic path over credential presence/values, authenticators installed or nil, and their verdicts; non-trivial = a path completed and reached an assertion",
		Assumptions: []string{
			"the request line is a concrete instance of the operation's template (routing is C03's subject); credentials are arbitrary byte strings of <= 10 bytes",
			"an authenticator that is not installed is the zero value of its API field (a typed nil func)",
			"authenticators may return any (request, bool); user hooks do not panic",
			"Header.Values / URL.Query are map lookups under canonical keys (DESIGN 11.2)",
		},
		Build: func(c *Ctx) ([]RunSpec, error) {
			if err := prepare(c); err != nil {
				return nil, err
			}
			f := onlyFilter()
			c.Fixtures(func(n string) bool { return secFixture(n) && (f == nil || f(n)) })
			genSecurityFamily(c, f)
			n := 0
			for _, u := range c.Pkgs {
				if !usable(u) {
					continue
				}
				k, err := genC11Harness(u)
				if err != nil {
					return nil, err
				}
				if k > 0 {
					if err := writeCommonHarness(u); err != nil {
						return nil, err
					}
					n++
				}
			}
			if n == 0 {
				return nil, fmt.Errorf("no corpus package with security schemes")
			}
			return []RunSpec{stdRunSpec(c, "VerifC11")}, nil
		},
	})
}
