package main

import "strings"

const c12SpecHarness = `//go:build verif

package specification

import (
	"encoding/json"

	"github.com/getkin/kin-openapi/openapi3"

	"github.com/vkd/goag/vrt"
)

func verifC12Sourcer() Sourcer[Schema] {
	// component schemas Circle / Square / Tri, found by reference
	objs := map[string]*Object[string, Ref[Schema]]{}
	for _, n := range [3]string{"Circle", "Square", "Tri"} {
		s := &Schema{Type: "object"}
		objs["#/components/schemas/"+n] = &Object[string, Ref[Schema]]{Name: n, V: s}
	}
	return SourcerFunc[Schema](func(ref string) (*Object[string, Ref[Schema]], bool) {
		o, ok := objs[ref]
		return o, ok
	})
}

// VerifC12Schema: NewSchema over maps of 3 entries (properties, required set,
// discriminator mapping, extensions): the result under every iteration order of
// every map equals the result under the canonical order.
func VerifC12Schema() {
	src := verifC12Sourcer()
	unknownRequired := vrt.Bool("unknown_required_names")
	mk := func() *openapi3.Schema {
		str := func() *openapi3.SchemaRef { return &openapi3.SchemaRef{Value: &openapi3.Schema{Type: "string"}} }
		s := &openapi3.Schema{
			Type:       "object",
			Properties: map[string]*openapi3.SchemaRef{"a": str(), "b": str(), "c": str()},
			Required:   []string{"a", "c"},
			OneOf: []*openapi3.SchemaRef{
				{Ref: "#/components/schemas/Circle"}, {Ref: "#/components/schemas/Square"}, {Ref: "#/components/schemas/Tri"},
			},
			Discriminator: &openapi3.Discriminator{PropertyName: "kind", Mapping: map[string]string{
				"c": "#/components/schemas/Circle", "s": "#/components/schemas/Square", "o": "Other",
			}},
		}
		s.ExtensionProps.Extensions = map[string]interface{}{
			"x-goag-go-type": json.RawMessage("\"T\""), "x-goag-other": json.RawMessage("\"U\""), "x-else": json.RawMessage("1"),
		}
		if unknownRequired {
			s.Required = []string{"a", "zz", "yy"}
		}
		return s
	}
	r1, e1 := NewSchema(mk(), src, SchemaOptions{IgnoreCustomType: true})
	for k := 0; k < vrt.Repeat(60); k++ { // one symbolic run stands for all orders; natively the runtime picks
		vrt.PermuteMaps(true)
		r2, e2 := NewSchema(mk(), src, SchemaOptions{IgnoreCustomType: true})
		vrt.PermuteMaps(false)
		vrt.Assert((e1 == nil) == (e2 == nil), "whether NewSchema fails depends on map iteration order")
		if e1 == nil && e2 == nil {
			vrt.Reach("compared")
			vrt.Assert(vrt.Equal(*r1, *r2), "the schema model built by NewSchema depends on map iteration order")
		}
	}
}

// VerifC12Requirements: a requirement object with several schemes.
func VerifC12Requirements() {
	schemes := NewMapEmpty[Ref[SecurityScheme]](3)
	for _, n := range [3]string{"alpha", "beta", "gamma"} {
		o := &Object[string, Ref[SecurityScheme]]{Name: n, V: &SecurityScheme{Type: SecuritySchemeTypeApiKey, Name: n, In: "header"}}
		schemes.List = append(schemes.List, o)
		schemes.indexes["#/components/securitySchemes/"+n] = o
	}
	mk := func() openapi3.SecurityRequirements {
		return openapi3.SecurityRequirements{{"alpha": nil, "beta": nil, "gamma": nil}, {"beta": nil}}
	}
	r1, e1 := NewSecurityRequirements(mk(), schemes)
	for k := 0; k < vrt.Repeat(60); k++ {
	vrt.PermuteMaps(true)
	r2, e2 := NewSecurityRequirements(mk(), schemes)
	vrt.PermuteMaps(false)
	vrt.Assert(e1 == nil && e2 == nil, "NewSecurityRequirements failed")
	if e1 == nil && e2 == nil {
		vrt.Reach("compared")
		vrt.Assert(len(r1) == len(r2), "number of requirements depends on map iteration order")
		if len(r1) == len(r2) {
			for i := 0; i < len(r1); i++ {
				vrt.Assert(r1[i].Scheme == r2[i].Scheme, "the scheme kept for a requirement depends on map iteration order")
			}
		}
	}
	}
}

// VerifC12ComponentParameters: NewComponents splitting components.parameters by location.
func VerifC12ComponentParameters() {
	mk := func() openapi3.Components {
		p := func(name, in string) *openapi3.ParameterRef {
			return &openapi3.ParameterRef{Value: &openapi3.Parameter{Name: name, In: in, Required: in == "path", Schema: &openapi3.SchemaRef{Value: &openapi3.Schema{Type: "string"}}}}
		}
		return openapi3.Components{Parameters: map[string]*openapi3.ParameterRef{"Q": p("q", "query"), "H": p("h", "header"), "P": p("p", "path")}}
	}
	r1, e1 := NewComponents(mk(), SchemaOptions{})
	vrt.PermuteMaps(true)
	r2, e2 := NewComponents(mk(), SchemaOptions{})
	vrt.PermuteMaps(false)
	vrt.Assert((e1 == nil) == (e2 == nil), "whether NewComponents fails depends on map iteration order")
	if e1 == nil && e2 == nil {
		vrt.Reach("compared")
		vrt.Assert(len(r1.QueryParameters.List) == len(r2.QueryParameters.List) && len(r1.HeaderParameters.List) == len(r2.HeaderParameters.List) && len(r1.PathParameters.List) == len(r2.PathParameters.List), "component parameters are split differently depending on map iteration order")
		for i := 0; i < len(r1.QueryParameters.List) && i < len(r2.QueryParameters.List); i++ {
			vrt.Assert(r1.QueryParameters.List[i].Name == r2.QueryParameters.List[i].Name, "order of component query parameters depends on map iteration order")
		}
	}
}
`

const c12RootHarness = `//go:build verif

package goag

import (
	"github.com/getkin/kin-openapi/openapi3"

	"github.com/vkd/goag/generator"
	"github.com/vkd/goag/specification"
	"github.com/vkd/goag/vrt"
)

// verifC12Rich: one document that uses every map-typed construct with several
// entries: alternative security requirements with different carriers, several
// media types (one of them twice, with and without a parameter), several
// responses and response headers, component tables, a discriminator mapping.
func verifC12Rich() *openapi3.Swagger {
	str := func() *openapi3.SchemaRef { return &openapi3.SchemaRef{Value: &openapi3.Schema{Type: "string"}} }
	integer := func() *openapi3.SchemaRef { return &openapi3.SchemaRef{Value: &openapi3.Schema{Type: "integer"}} }
	obj := func(props map[string]*openapi3.SchemaRef, req ...string) *openapi3.Schema {
		return &openapi3.Schema{Type: "object", Properties: props, Required: req}
	}
	pet := obj(map[string]*openapi3.SchemaRef{"id": integer(), "name": str(), "tag": str()}, "id", "name")
	petRef := func() *openapi3.SchemaRef { return &openapi3.SchemaRef{Ref: "#/components/schemas/Pet", Value: pet} }
	errS := obj(map[string]*openapi3.SchemaRef{"detail": str(), "code": integer()}, "detail")
	errRef := func() *openapi3.SchemaRef { return &openapi3.SchemaRef{Ref: "#/components/schemas/Error", Value: errS} }
	hdr := func(s *openapi3.SchemaRef) *openapi3.HeaderRef {
		return &openapi3.HeaderRef{Value: &openapi3.Header{Schema: s}}
	}
	desc := "d"
	sec := openapi3.SecurityRequirements{{"bearerAuth": []string{}}, {"apiKey": []string{}}, {"sessionToken": []string{}}}
	op := &openapi3.Operation{
		Security: &sec,
		Parameters: openapi3.Parameters{
			&openapi3.ParameterRef{Value: &openapi3.Parameter{Name: "q", In: "query", Schema: str()}},
			&openapi3.ParameterRef{Value: &openapi3.Parameter{Name: "X-Trace", In: "header", Schema: integer()}},
		},
		RequestBody: &openapi3.RequestBodyRef{Value: &openapi3.RequestBody{Required: true, Content: openapi3.Content{
			"application/json":                {Schema: petRef()},
			"application/json; charset=utf-8": {Schema: errRef()},
			"application/octet-stream":        {Schema: &openapi3.SchemaRef{Value: &openapi3.Schema{Type: "string", Format: "binary"}}},
		}}},
		Responses: openapi3.Responses{
			"200": &openapi3.ResponseRef{Value: &openapi3.Response{Description: &desc,
				Headers: openapi3.Headers{"X-A": hdr(str()), "X-B": hdr(integer()), "X-C": hdr(str())},
				Content: openapi3.Content{"application/json": {Schema: petRef()}}}},
			"404":     &openapi3.ResponseRef{Value: &openapi3.Response{Description: &desc, Content: openapi3.Content{"application/json": {Schema: errRef()}}}},
			"default": &openapi3.ResponseRef{Value: &openapi3.Response{Description: &desc}},
		},
	}
	op2 := &openapi3.Operation{Responses: openapi3.Responses{"200": &openapi3.ResponseRef{Value: &openapi3.Response{Description: &desc}}}}
	return &openapi3.Swagger{
		OpenAPI: "3.0.3",
		Info:    &openapi3.Info{Title: "t", Version: "1"},
		Paths: openapi3.Paths{
			"/pets":      &openapi3.PathItem{Post: op, Get: op2},
			"/pets/{id}": &openapi3.PathItem{Get: op2, Parameters: openapi3.Parameters{&openapi3.ParameterRef{Value: &openapi3.Parameter{Name: "id", In: "path", Required: true, Schema: str()}}}},
			"/shops":     &openapi3.PathItem{Get: op2},
		},
		Components: openapi3.Components{
			Schemas: map[string]*openapi3.SchemaRef{"Pet": {Value: pet}, "Error": {Value: errS}, "Tag": str()},
			SecuritySchemes: map[string]*openapi3.SecuritySchemeRef{
				"bearerAuth":   {Value: &openapi3.SecurityScheme{Type: "http", Scheme: "bearer"}},
				"apiKey":       {Value: &openapi3.SecurityScheme{Type: "apiKey", In: "header", Name: "X-API-Key"}},
				"sessionToken": {Value: &openapi3.SecurityScheme{Type: "apiKey", In: "header", Name: "X-Session"}},
			},
		},
	}
}

// VerifC12xPipeline: the real ParseSwagger + NewGenerator (no stubs) on the rich
// document; in the second run exactly one map range - whichever - iterates in
// an arbitrary order. The generator model handed to the templates must be the same.
func VerifC12xPipeline() {
	cfg := generator.Config{}
	cfg.Cors.Enable = vrt.Bool("cors_enabled")
	build := func() (*generator.Generator, error) {
		s, err := specification.ParseSwagger(verifC12Rich(), specification.SchemaOptions{})
		if err != nil {
			return nil, err
		}
		return generator.NewGenerator(s, cfg, generator.PackageName("test"), generator.BasePath(""), generator.SpecFilename("openapi.yaml"))
	}
	g1, e1 := build()
	for k := 0; k < vrt.Repeat(40); k++ {
		vrt.PermuteOneMap(true)
		g2, e2 := build()
		vrt.PermuteOneMap(false)
		vrt.Assert((e1 == nil) == (e2 == nil), "whether the spec / generator model can be built depends on map iteration order")
		if e1 == nil && e2 == nil {
			vrt.Reach("compared")
			vrt.Assert(vrt.EqualData(g1, g2), "the generator model handed to the templates depends on the iteration order of a map")
		}
	}
}

// VerifC12ServerVariables: the base path derived from servers[0] with several
// variables (one default mentions another variable) under every iteration order.
func VerifC12ServerVariables() {
	mk := func() *openapi3.Swagger {
		return &openapi3.Swagger{
			OpenAPI: "3.0.3",
			Info:    &openapi3.Info{Title: "t", Version: "1"},
			Paths: openapi3.Paths{"/a": &openapi3.PathItem{Get: &openapi3.Operation{Responses: openapi3.Responses{"200": &openapi3.ResponseRef{Value: &openapi3.Response{}}}}}},
			Servers: openapi3.Servers{&openapi3.Server{
			URL: "https://example.com/{a}/{b}/{c}",
			Variables: map[string]*openapi3.ServerVariable{
				"a": {Default: "x{b}"}, "b": {Default: "y"}, "c": {Default: "z"},
			},
		}}}
	}
	g := Generator{GenAPIHandler: true}
	vrt.SetRenderParses(true)
	vrt.FSSelect(1)
	e1 := g.Generate(mk(), vrt.FSDir(), "test", []byte("x"), "openapi.yaml", "", generator.Config{})
	// observable: the base path handed to the generator (symbolic run) / the router it renders (native run)
	b1 := vrt.Observed("basePath") + vrt.FSContent("router.go")
	for k := 0; k < vrt.Repeat(40); k++ {
		vrt.PermuteMaps(true)
		vrt.FSSelect(2)
		e2 := g.Generate(mk(), vrt.FSDir(), "test", []byte("x"), "openapi.yaml", "", generator.Config{})
		vrt.PermuteMaps(false)
		b2 := vrt.Observed("basePath") + vrt.FSContent("router.go")
		vrt.Assert(e1 == nil && e2 == nil, "Generate failed")
		vrt.Reach("compared")
		vrt.Assert(b1 == b2, "the base path derived from the server variables depends on map iteration order")
	}
	vrt.FSCleanup()
}
`

func init() {
	register(&Prop{
		ID: "C12", Level: "model_checking",
		Rule: "one harness per function of goag's own packages that ranges over a map and is reachable from Generate (sites are found in the SSA on every run; a reachable site whose enclosing function no harness executes makes the run inconclusive); the iteration order of every map range in the second call is a nondeterministic choice (all n! orders explored) and the result is compared with the call under canonical order",
		Assumptions: []string{
			"the only per-run nondeterminism in goag's own code is map iteration (the SSA is scanned for go statements, select, time.Now, math/rand on every run; findings are listed in the evidence)",
			"maps of 3 entries (all 6 orders per range); everything after the spec model is lists and text/template (which sorts map keys), trusted deterministic; kin-openapi's loader and goimports are outside",
			"error TEXT built from an unordered set (unnecessary required fields) is not compared: no file is written on that path",
		},
		Build: func(c *Ctx) ([]RunSpec, error) {
			if err := c.repoHarness("specification", "zz_verif_c12.go", c12SpecHarness); err != nil {
				return nil, err
			}
			root := c12RootHarness
			if c.Tier == "thorough" {
				// two designated ranges at once; constructor harnesses with four-entry maps are below
				root = strings.ReplaceAll(root, "vrt.PermuteOneMap(true)", "vrt.PermuteSomeMaps(2)")
			}
			if err := c.repoHarness(".", "zz_verif_c12.go", root); err != nil {
				return nil, err
			}
			a := repoRunSpec(c, "specification", "VerifC12")
			a.MapRangeCoverage = true
			b := repoRunSpec(c, ".", "VerifC12")
			b.Stubs = []string{"genfs"}
			b.MapRangeCoverage = true
			b.Prefix = "VerifC12Server"
			pipe := repoRunSpec(c, ".", "VerifC12xPipeline")
			pipe.TargetPrefixes = append(pipe.TargetPrefixes, "github.com/getkin/kin-openapi/openapi3")
			pipe.MapRangeCoverage = true
			return []RunSpec{a, b, pipe}, nil
		},
	})
}
