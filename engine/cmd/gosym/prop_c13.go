package main

import (
	"fmt"
	"os"
	"path/filepath"
	"strings"
)

// repoHarness installs vrt and a harness file into a package of the scratch repo copy.
func (c *Ctx) repoHarness(pkgDir, file, src string) error {
	vd := filepath.Join(c.Repo, "vrt")
	if _, err := os.Stat(filepath.Join(vd, "vrt.go")); err != nil {
		os.MkdirAll(vd, 0o755)
		bs, err := os.ReadFile(filepath.Join(verifDir, "vrt", "vrt.go"))
		if err != nil {
			return err
		}
		if err := os.WriteFile(filepath.Join(vd, "vrt.go"), bs, 0o644); err != nil {
			return err
		}
	}
	return os.WriteFile(filepath.Join(c.Repo, pkgDir, file), []byte(src), 0o644)
}

func repoRunSpec(c *Ctx, pkgDir, prefix string) RunSpec {
	return RunSpec{Dir: c.Repo, Patterns: []string{"./" + pkgDir}, Prefix: prefix, TargetPrefixes: []string{"github.com/vkd/goag"},
		ReplayPkgDir: func(h string) string {
			if strings.Contains(h, "github.com/vkd/goag") {
				return filepath.Join(c.Repo, pkgDir)
			}
			return ""
		}}
}

// goStringEvaluator: reference evaluator of Go string-literal expressions
// (raw / interpreted literals joined by +), written from the language spec.
const goStringEvaluator = `
// verifEvalGoString evaluates lit1 + lit2 + ... where each literal is a raw
// string (bytes verbatim minus carriage returns) or an interpreted string.
func verifEvalGoString(e string) (string, bool) {
	out := ""
	i := 0
	n := len(e)
	first := true
	for {
		if !first {
			if i == n {
				return out, true
			}
			if e[i] != '+' {
				return "", false
			}
			i++
		}
		first = false
		if i >= n {
			return "", false
		}
		switch e[i] {
		case 0x60: // raw string literal
			i++
			for {
				if i >= n {
					return "", false
				}
				c := e[i]
				i++
				if c == 0x60 {
					break
				}
				if c != '\r' {
					out += string(rune(c))
				}
			}
		case '"':
			i++
			for {
				if i >= n {
					return "", false
				}
				c := e[i]
				i++
				if c == '"' {
					break
				}
				if c == '\n' {
					return "", false
				}
				if c != '\\' {
					out += string(rune(c))
					continue
				}
				if i >= n {
					return "", false
				}
				d := e[i]
				i++
				switch d {
				case 'a':
					out += "\a"
				case 'b':
					out += "\b"
				case 'f':
					out += "\f"
				case 'n':
					out += "\n"
				case 'r':
					out += "\r"
				case 't':
					out += "\t"
				case 'v':
					out += "\v"
				case '\\':
					out += "\\"
				case '"':
					out += "\""
				case 'x':
					if i+1 >= n {
						return "", false
					}
					h, okh := verifHex(e[i])
					l, okl := verifHex(e[i+1])
					if !okh || !okl {
						return "", false
					}
					i += 2
					v := h*16 + l
					if v >= 128 {
						return "", false // outside the ASCII model of this evaluator
					}
					out += string(rune(v))
				default:
					return "", false
				}
			}
		default:
			return "", false
		}
	}
}

func verifHex(c byte) (int, bool) {
	if c >= '0' && c <= '9' {
		return int(c - '0'), true
	}
	if c >= 'a' && c <= 'f' {
		return int(c-'a') + 10, true
	}
	if c >= 'A' && c <= 'F' {
		return int(c-'A') + 10, true
	}
	return 0, false
}
`

func c13GeneratorHarness(n int) string {
	return fmt.Sprintf(`//go:build verif

package generator

import "github.com/vkd/goag/vrt"
%s
// VerifC13Encode: for every file content within the bound, the Go expression that
// encodeRawFileAsString emits evaluates (by the language rules) to the content.
func VerifC13Encode() {
	s := vrt.String("spec", %d)
	for i := 0; i < len(s); i++ {
		// spec files are valid UTF-8 without NUL (DESIGN 11.6); the byte model is ASCII
		vrt.Assume(s[i] != 0 && s[i] < 128)
	}
	lit := encodeRawFileAsString(s)
	v, ok := verifEvalGoString(lit)
	vrt.Assert(ok, "the emitted SpecFile initialiser is not a well-formed Go string expression")
	if ok {
		vrt.Reach("evaluated")
		vrt.Assert(v == s, "the emitted SpecFile constant differs from the input file")
	}
}
`, goStringEvaluator, n)
}

func init() {
	register(&Prop{
		ID: "C13", Level: "model_checking",
		Rule: "generator side: one harness over ALL file contents up to the byte bound (every byte value 1..127), executing the real encodeRawFileAsString and a reference evaluator of Go string expressions; served side: one harness per corpus package over arbitrary request bytes, spec handler installed or not, 0..2 middlewares that may short-circuit; plus the constant comparison SpecFile == input file per package",
		Assumptions: []string{
			"spec files are valid UTF-8 without NUL; the symbolic byte model is ASCII (multi-byte UTF-8 sequences contain no byte the encoding treats specially)",
			"file length <= 4 (quick) / 6 (thorough) for the symbolic half; the per-byte structure of the encoding is not proved homomorphic beyond the bound",
			"the reference evaluator follows the Go spec for raw and interpreted string literals joined by +",
		},
		Build: func(c *Ctx) ([]RunSpec, error) {
			if err := routeCorpus(c); err != nil {
				return nil, err
			}
			n := 0
			for _, u := range c.Pkgs {
				if !usable(u) {
					continue
				}
				if err := writeCommonHarness(u); err != nil {
					return nil, err
				}
				if err := genC13ServeHarness(u, tierInt(c, 16, 32)); err != nil {
					return nil, err
				}
				n++
			}
			if n == 0 {
				return nil, fmt.Errorf("no usable corpus package")
			}
			if err := c.repoHarness("generator", "zz_verif_c13.go", c13GeneratorHarness(tierInt(c, 4, 5))); err != nil {
				return nil, err
			}
			return []RunSpec{repoRunSpec(c, "generator", "VerifC13"), stdRunSpec(c, "VerifC13")}, nil
		},
	})
}
