package main

import "fmt"

func init() {
	register(&Prop{
		ID: "C14", Level: "model_checking",
		Rule: "per corpus package: one harness with an arbitrary request line, plus one per operation with arbitrary credentials / authenticators (nil or any verdict) / one designated parameter (absent, one or two arbitrary values) / body (none, truncated, any JSON scalar/empty collection, a document built from the body schema with one arbitrary deviation); every implicit panic obligation (index, slice bounds, nil dereference, nil map write, nil func call, failed type assertion) on every explored path is a solver query",
		Assumptions: []string{
			"all operation handlers are installed; handlers call Parse() and return a response that writes once (C02 covers generated responses)",
			"standard-library calls satisfy their contracts and do not panic (DESIGN 11.9): panics inside encoding/json, net/url, time are outside the claim",
			"r.Body is never nil (net/http guarantees it for server requests)",
		},
		Build: func(c *Ctx) ([]RunSpec, error) {
			if err := prepare(c); err != nil {
				return nil, err
			}
			f := onlyFilter()
			c.Fixtures(f)
			genRouterFamily(c, f)
			genSecurityFamily(c, f)
			genParamFamily(c, f)
			genSchemaFamily(c, f)
			n := 0
			for _, u := range c.Pkgs {
				if !usable(u) {
					continue
				}
				if err := writeCommonHarness(u); err != nil {
					return nil, err
				}
				k, err := genC14Harness(u, tierInt(c, 16, 32))
				if err != nil {
					return nil, err
				}
				n += k
			}
			if n == 0 {
				return nil, fmt.Errorf("no usable corpus package")
			}
			return []RunSpec{stdRunSpec(c, "VerifC14")}, nil
		},
	})
}
