package main

import "strings"

const c15SpecHarness = `//go:build verif

package specification

import (
	"github.com/getkin/kin-openapi/openapi3"

	"github.com/vkd/goag/vrt"
)

func verifC15Str() *openapi3.SchemaRef { return &openapi3.SchemaRef{Value: &openapi3.Schema{Type: "string"}} }

// verifC15MaybeSchema: the schema of a media type / parameter / header is
// optional in a document the OpenAPI loader accepts.
func verifC15MaybeSchema(name string) *openapi3.SchemaRef {
	if vrt.Bool(name) {
		return verifC15Str()
	}
	return nil
}

func VerifC15MediaType() {
	mt := &openapi3.MediaType{Schema: verifC15MaybeSchema("media_type_has_schema")}
	r, err := NewMediaType(mt, NewMapEmpty[Ref[Schema]](0), SchemaOptions{})
	vrt.Assert(err != nil || r != nil, "NewMediaType returned neither a value nor an error")
}

func VerifC15Parameters() {
	p := &openapi3.Parameter{Name: "p", Required: vrt.Bool("required"), Schema: verifC15MaybeSchema("parameter_has_schema")}
	if p.Schema == nil {
		// the "content" style of parameter definition
		p.Content = openapi3.Content{"application/json": &openapi3.MediaType{Schema: verifC15Str()}}
	}
	if vrt.Bool("has_explode") {
		b := vrt.Bool("explode")
		p.Explode = &b
	}
	schemas := NewMapEmpty[Ref[Schema]](0)
	switch vrt.Choose("location", 4) {
	case 0:
		p.In = "query"
		r, err := NewQueryParameter(p, schemas, SchemaOptions{})
		vrt.Assert(err != nil || r != nil, "NewQueryParameter returned neither a value nor an error")
	case 1:
		p.In = "header"
		r, err := NewHeaderParameter(p, schemas, SchemaOptions{})
		vrt.Assert(err != nil || r != nil, "NewHeaderParameter returned neither a value nor an error")
	case 2:
		p.In = "path"
		r, err := NewPathParameter(p, schemas, SchemaOptions{})
		vrt.Assert(err != nil || r != nil, "NewPathParameter returned neither a value nor an error")
	case 3:
		p.In = "cookie"
		r, err := NewCookieParameter(p, schemas, SchemaOptions{})
		vrt.Assert(err != nil || r != nil, "NewCookieParameter returned neither a value nor an error")
	}
}

func VerifC15Header() {
	h := &openapi3.Header{Schema: verifC15MaybeSchema("header_has_schema")}
	r, err := NewHeader(h, NewMapEmpty[Ref[Schema]](0), SchemaOptions{})
	vrt.Assert(err != nil || r != nil, "NewHeader returned neither a value nor an error")
}

func VerifC15ServerVariable() {
	sv := &openapi3.ServerVariable{Description: "d"}
	switch vrt.Choose("default_kind", 4) {
	case 0:
		sv.Default = "v1"
	case 1:
		sv.Default = float64(8443)
	case 2:
		sv.Default = true
	case 3:
		sv.Default = nil
	}
	switch vrt.Choose("enum_kind", 3) {
	case 1:
		sv.Enum = []interface{}{"a", "b"}
	case 2:
		sv.Enum = []interface{}{"a", float64(2)}
	}
	s := &openapi3.Server{URL: "https://example.com:{port}/", Variables: map[string]*openapi3.ServerVariable{"port": sv}}
	_, err := NewServers(openapi3.Servers{s})
	_ = err
	vrt.Reach("returned")
}

func VerifC15RequestBodyAndResponse() {
	content := openapi3.Content{"application/json": &openapi3.MediaType{Schema: verifC15MaybeSchema("media_type_has_schema")}}
	if vrt.Bool("second_media_type") {
		content["text/plain"] = &openapi3.MediaType{Schema: verifC15MaybeSchema("second_has_schema")}
	}
	rb, err := NewRequestBody(&openapi3.RequestBody{Content: content, Required: vrt.Bool("required")}, NewMapEmpty[Ref[Schema]](0), SchemaOptions{})
	vrt.Assert(err != nil || rb != nil, "NewRequestBody returned neither a value nor an error")
	resp := &openapi3.Response{Content: content}
	if vrt.Bool("has_description") {
		d := "desc"
		resp.Description = &d
	}
	if vrt.Bool("has_header") {
		resp.Headers = map[string]*openapi3.HeaderRef{"X-A": {Value: &openapi3.Header{Schema: verifC15MaybeSchema("response_header_has_schema")}}}
	}
	var cs Components
	cs.Schemas = NewMapEmpty[Ref[Schema]](0)
	cs.Headers = NewMapEmpty[Ref[Header]](0)
	cs.Links = NewMapEmpty[Ref[Link]](0)
	r, err2 := NewResponse(resp, cs, SchemaOptions{})
	vrt.Assert(err2 != nil || r != nil, "NewResponse returned neither a value nor an error")
}

func VerifC15SchemaShapes() {
	s := &openapi3.Schema{}
	switch vrt.Choose("type", 4) {
	case 0:
		s.Type = "array" // items may be missing
		if vrt.Bool("array_has_items") {
			s.Items = verifC15Str()
		}
	case 1:
		s.Type = "object"
		s.Properties = map[string]*openapi3.SchemaRef{"a": verifC15Str()}
		if vrt.Bool("additional_properties_flag") {
			t := vrt.Bool("additional_properties_allowed")
			s.AdditionalPropertiesAllowed = &t
		}
	case 2:
		s.Type = "string"
		if vrt.Bool("has_discriminator_without_oneof") {
			s.Discriminator = &openapi3.Discriminator{PropertyName: "k"}
		}
	case 3:
		s.OneOf = []*openapi3.SchemaRef{verifC15Str()}
		s.Discriminator = &openapi3.Discriminator{PropertyName: "k", Mapping: map[string]string{"x": "Unknown"}}
	}
	r, err := NewSchema(s, NewMapEmpty[Ref[Schema]](0), SchemaOptions{})
	vrt.Assert(err != nil || r != nil, "NewSchema returned neither a value nor an error")
}
`

const c15GenHarness = `//go:build verif

package generator

import "github.com/vkd/goag/vrt"

// VerifC15CustomType: x-goag-go-type is free text in the spec.
func VerifC15CustomType() {
	s := vrt.String("x_goag_go_type", 6)
	for i := 0; i < len(s); i++ {
		vrt.Assume(s[i] >= 0x21 && s[i] <= 0x7e)
	}
	ct, _ := NewCustomType(s, Primitive{})
	_ = ct
	vrt.Reach("returned")
}

// VerifC15Path: path templates are map keys of the document (they start with '/').
func VerifC15Path() {
	s := vrt.String("path_template", 6)
	vrt.Assume(len(s) > 0 && s[0] == '/')
	for i := 0; i < len(s); i++ {
		vrt.Assume(s[i] >= 0x21 && s[i] <= 0x7e)
	}
	p, err := NewPath(s)
	if err == nil {
		_ = p.StringBuilder()
	}
	vrt.Reach("returned")
}
`

const c15RootHarness = `//go:build verif

package goag

import (
	"github.com/getkin/kin-openapi/openapi3"

	"github.com/vkd/goag/generator"
	"github.com/vkd/goag/specification"
	"github.com/vkd/goag/vrt"
)

const verifC15BadComponents = "openapi: 3.0.3\ninfo:\n  title: t\n  version: 0.0.1\npaths:\n  /a:\n    get:\n      responses:\n        '200':\n          description: ok\ncomponents:\n  headers:\n    Pagination:\n      schema:\n        type: object\n        properties:\n          page:\n            type: integer\n"

// VerifC15Pipeline: the real spec-model and generator-model constructors
// (ParseSwagger, NewGenerator: plain Go, no templates) on a small document with
// nondeterministic omissions: which path variables are declared, at which level,
// with or without schema.
func VerifC15xPipeline() {
	str := func() *openapi3.SchemaRef { return &openapi3.SchemaRef{Value: &openapi3.Schema{Type: "string"}} }
	prm := func(name string) *openapi3.ParameterRef {
		return &openapi3.ParameterRef{Value: &openapi3.Parameter{Name: name, In: "path", Required: true, Schema: str()}}
	}
	op := &openapi3.Operation{Responses: openapi3.Responses{"200": &openapi3.ResponseRef{Value: &openapi3.Response{}}}}
	item := &openapi3.PathItem{Get: op}
	switch vrt.Choose("owner_id_declared_at", 3) {
	case 1:
		op.Parameters = append(op.Parameters, prm("owner_id"))
	case 2:
		item.Parameters = append(item.Parameters, prm("owner_id"))
	}
	switch vrt.Choose("pet_id_declared_at", 3) {
	case 1:
		op.Parameters = append(op.Parameters, prm("pet_id"))
	case 2:
		item.Parameters = append(item.Parameters, prm("pet_id"))
	}
	if vrt.Bool("undeclared_extra_parameter") {
		op.Parameters = append(op.Parameters, prm("other"))
	}
	spec := &openapi3.Swagger{
		OpenAPI: "3.0.3",
		Info:    &openapi3.Info{Title: "t", Version: "1"},
		Paths:   openapi3.Paths{"/owners/{owner_id}/pets/{pet_id}": item},
	}
	s, err := specification.ParseSwagger(spec, specification.SchemaOptions{})
	if err != nil {
		vrt.Reach("spec-model-rejected")
		return
	}
	_, err = generator.NewGenerator(s, generator.Config{}, generator.PackageName("test"), generator.BasePath(""), generator.SpecFilename("openapi.yaml"))
	if err != nil {
		vrt.Reach("generator-model-rejected")
		return
	}
	vrt.Reach("generator-model-built")
}

// VerifC15RenderErrorsSurface: a file that fails to render makes Generate fail
// (the command then exits non-zero): no render error is swallowed.
func VerifC15RenderErrorsSurface() {
	g := Generator{GenClient: vrt.Bool("gen_client"), GenAPIHandler: vrt.Bool("gen_api_handler")}
	hasC := vrt.Bool("spec_has_components")
	vrt.SetHasComponents(hasC)
	vrt.SetRenderParses(true)
	k := vrt.Choose("failing_render", 6)
	vrt.SetRenderFailure(k)
	var spec *openapi3.Swagger
	var raw []byte
	if !vrt.Symbolic() {
		// natively only "components.go cannot be rendered" has a real spec
		vrt.Assume(k == 1 && hasC && g.GenAPIHandler)
		s, err := openapi3.NewSwaggerLoader().LoadSwaggerFromData([]byte(verifC15BadComponents))
		if err != nil {
			panic(err)
		}
		spec, raw = s, []byte(verifC15BadComponents)
	}
	vrt.FSSelect(1)
	err := g.Generate(spec, vrt.FSDir(), "test", raw, "openapi.yaml", "/b", generator.Config{})
	nRenders := 0
	if hasC {
		nRenders++
	}
	if g.GenAPIHandler {
		nRenders += 3
	}
	if g.GenClient {
		nRenders++
	}
	if k >= 1 && k <= nRenders {
		vrt.Reach("a-render-failed")
		vrt.Assert(err != nil, "a file failed to render but Generate reported success")
	}
	vrt.FSCleanup()
}
`

func init() {
	register(&Prop{
		ID: "C15", Level: "other",
		Explanation: "C15 is claimed for the constructor layer (DESIGN 4/C15): the spec-model constructors of specification/ and the string-slicing constructors of generator/ are executed symbolically from go/ssa on arbitrary loader-valid nodes - for every optional pointer / interface / map of the kin-openapi input struct the harness makes nil-ness (and for interface{} values the dynamic type) a nondeterministic choice, sliced strings are symbolic bytes - and every implicit panic obligation (nil dereference, failed type assertion, slice bounds, index) on every explored path is a solver query; a feasible one is replayed against the native build. Outside the claim: panics raised inside template execution (text/template turns them into errors; which render method a template reaches is reflection-driven), whole-document mutation (replaced by per-constructor arbitrary nodes), cmd/goag's exit status.",
		Rule: "one harness per constructor family; a case is one path over the nil-ness / dynamic-type / byte choices; non-trivial = the constructor returned on that path",
		Assumptions: []string{
			"validity predicate: what kin-openapi v0.38.0 guarantees after loading - schema of a media type / parameter / header optional, server-variable default and enum items of any JSON type, response description optional",
			"strings <= 6 (thorough 9) bytes of printable ASCII",
		},
		Build: func(c *Ctx) ([]RunSpec, error) {
			if err := c.repoHarness("specification", "zz_verif_c15.go", c15SpecHarness); err != nil {
				return nil, err
			}
			gen := c15GenHarness
			if c.Tier == "thorough" {
				gen = strings.ReplaceAll(strings.ReplaceAll(gen, `vrt.String("x_goag_go_type", 6)`, `vrt.String("x_goag_go_type", 9)`), `vrt.String("path_template", 6)`, `vrt.String("path_template", 9)`)
			}
			if err := c.repoHarness("generator", "zz_verif_c15.go", gen); err != nil {
				return nil, err
			}
			if err := c.repoHarness(".", "zz_verif_c15.go", c15RootHarness); err != nil {
				return nil, err
			}
			root := repoRunSpec(c, ".", "VerifC15")
			root.Stubs = []string{"genfs"}
			root.Prefix = "VerifC15Render"
			pipe := repoRunSpec(c, ".", "VerifC15xPipeline")
			pipe.TargetPrefixes = append(pipe.TargetPrefixes, "github.com/getkin/kin-openapi/openapi3")
			return []RunSpec{repoRunSpec(c, "specification", "VerifC15"), repoRunSpec(c, "generator", "VerifC15"), root, pipe}, nil
		},
	})
}
