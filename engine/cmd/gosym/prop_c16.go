package main

import "fmt"

func tierInt(c *Ctx, q, t int) int {
	if c.Tier == "thorough" {
		return t
	}
	return q
}

func init() {
	register(&Prop{
		ID: "C16", Level: "model_checking",
		Rule: "one harness per corpus package; a case is one symbolic path (request bytes, number of middlewares 0..n, spec/CORS handler installed or not); non-trivial = a path completed and reached an assertion",
		Assumptions: []string{
			"middlewares are harness closures that call next exactly once (user hooks terminate and do not panic, DESIGN 11.7)",
			"authenticators accept; every credential is supplied (security outcomes are C11's subject)",
			"stubs: context.WithValue/Value, Request.WithContext, http.NotFoundHandler",
		},
		Build: func(c *Ctx) ([]RunSpec, error) {
			if err := routeCorpus(c); err != nil {
				return nil, err
			}
			genSecurityFamily(c, onlyFilter())
			n := 0
			for _, u := range c.Pkgs {
				if !usable(u) {
					continue
				}
				if err := writeCommonHarness(u); err != nil {
					return nil, err
				}
				if err := genC16Harness(u, tierInt(c, 20, 32), tierInt(c, 3, 4)); err != nil {
					return nil, err
				}
				n++
			}
			if n == 0 {
				return nil, fmt.Errorf("no usable corpus package")
			}
			return []RunSpec{stdRunSpec(c, "VerifC16")}, nil
		},
	})
}
