package main

import "fmt"

func init() {
	register(&Prop{
		ID: "C17", Level: "model_checking",
		Rule: "one harness per CORS-enabled corpus package; a case is one symbolic path over request bytes and CORS handler installed/nil; non-trivial = a path completed and reached an assertion",
		Assumptions: []string{
			"method/header sets are compared as sets (order is not part of the property); header names canonicalised with net/http's rule",
			"packages generated with cors off have no CORSHandler field: OPTIONS without an operation is then unrouted, which C03 decides",
		},
		Build: func(c *Ctx) ([]RunSpec, error) {
			if err := routeCorpus(c); err != nil {
				return nil, err
			}
			genSecurityFamily(c, onlyFilter())
			n := 0
			for _, u := range c.Pkgs {
				if !usable(u) {
					continue
				}
				ok, err := genC17Harness(u, tierInt(c, 20, 32))
				if err != nil {
					return nil, err
				}
				if ok {
					if err := writeCommonHarness(u); err != nil {
						return nil, err
					}
					n++
				}
			}
			if n == 0 {
				return nil, fmt.Errorf("no CORS-enabled corpus package")
			}
			return []RunSpec{stdRunSpec(c, "VerifC17")}, nil
		},
	})
}
