package main

import (
	"fmt"
	"os"
	"path/filepath"
	"regexp"
	"strings"
)

var reBuildFail = regexp.MustCompile(`(?m)^# (vscratch/pkgs/\S+)`)

func init() {
	register(&Prop{
		ID: "C18", Level: "model_checking",
		Rule: "every corpus spec that contains component references (or inline definitions) is rewritten on the YAML tree: inline-all, hoist-all (thorough: plus seeded partial inlinings); original and rewrite are generated and loaded into ONE program; per pair: one harness with an arbitrary request line, one per operation with one designated arbitrary parameter / deviating body (others valid), one per documented response with an arbitrary value; both sides see the same solver variables (inputs identified by name) and the wire-level observations are asserted equal",
		Assumptions: []string{
			"a rewrite the generator rejects, or whose output does not compile, is not a pair (listed in the evidence notes; compile-ability is C01's subject)",
			"parsed parameter values / response values are compared only where the two generated Go types have the same structure up to type names (else only acceptance, status, headers and JSON are compared); oneOf members and x-goag-go-type schemas are never inlined",
			"bounds of C04 (parameter text), C08 (documents) and C02 (response values)",
		},
		Build: func(c *Ctx) ([]RunSpec, error) {
			if err := prepare(c); err != nil {
				return nil, err
			}
			f := onlyFilter()
			c.Fixtures(f)
			genParamFamily(c, f)
			genResponseFamily(c, f)
			genSchemaFamily(c, f)
			type cand struct {
				orig, rw *PkgUnit
				kind     string
			}
			var cands []cand
			origs := append([]*PkgUnit{}, c.Pkgs...)
			for _, u := range origs {
				if !usable(u) {
					continue
				}
				spec, err := os.ReadFile(filepath.Join(u.Dir, "openapi.yaml"))
				if err != nil {
					continue
				}
				type rw struct {
					kind string
					out  []byte
					n    int
					err  error
				}
				var rws []rw
				o, n, err := inlineSpec(spec, nil)
				rws = append(rws, rw{"inl", o, n, err})
				o, n, err = hoistSpec(spec)
				rws = append(rws, rw{"hst", o, n, err})
				if c.Tier == "thorough" {
					o, n, err = partialInline(spec, c.Seed*7919+int64(len(u.Name)))
					rws = append(rws, rw{"prt", o, n, err})
				}
				for _, r := range rws {
					if r.err != nil || r.n == 0 {
						continue
					}
					v := c.GenPackage(u.Name+"_"+r.kind, "X", r.out, u.Cfg, u.Flags)
					if bs, err := os.ReadFile(filepath.Join(u.Dir, "models.go")); err == nil {
						os.WriteFile(filepath.Join(v.Dir, "models.go"), bs, 0o644)
					}
					if !usable(v) {
						c.Info = append(c.Info, fmt.Sprintf("%s/%s: the generator rejects the rewritten spec (%s): not a pair", u.Name, r.kind, firstLine(v.GenErr)))
						os.RemoveAll(v.Dir)
						continue
					}
					cands = append(cands, cand{u, v, r.kind})
				}
			}
			// which rewrites compile (generated code only, before any harness file exists)
			out, _ := runCmd(c.Mod, goEnv(), "go", "build", "./pkgs/...")
			broken := map[string]bool{}
			for _, m := range reBuildFail.FindAllStringSubmatch(out, -1) {
				broken[strings.TrimPrefix(m[1], "vscratch/pkgs/")] = true
			}
			n := 0
			used := map[*PkgUnit]bool{}
			for _, cd := range cands {
				if broken[cd.orig.Name] {
					continue
				}
				if broken[cd.rw.Name] {
					c.Info = append(c.Info, fmt.Sprintf("%s/%s: the rewritten spec is generated but the output does not compile: not a pair (C01's subject)", cd.orig.Name, cd.kind))
					os.RemoveAll(cd.rw.Dir)
					continue
				}
				// each side of a pair gets its own copy of the original (one obs file per package)
				a := cd.orig
				if used[a] {
					cp := c.GenPackage(a.Name+"_o"+cd.kind, "X", mustRead(filepath.Join(a.Dir, "openapi.yaml")), a.Cfg, a.Flags)
					if bs, err := os.ReadFile(filepath.Join(a.Dir, "models.go")); err == nil {
						os.WriteFile(filepath.Join(cp.Dir, "models.go"), bs, 0o644)
					}
					if !usable(cp) {
						continue
					}
					a = cp
				}
				used[a] = true
				pl := makeC18Plan(a, cd.rw, cd.orig.Name+"_"+cd.kind)
				for _, s := range pl.Skipped {
					c.Info = append(c.Info, pl.Name+": "+s)
				}
				if len(pl.Ops) == 0 {
					continue
				}
				for _, side := range []string{"A", "B"} {
					if err := genC18Obs(pl, side, c.Tier); err != nil {
						return nil, err
					}
				}
				if err := writeCommonHarness(a); err != nil {
					return nil, err
				}
				if err := writeCommonHarness(cd.rw); err != nil {
					return nil, err
				}
				k, err := genC18Pair(c, pl)
				if err != nil {
					return nil, err
				}
				n += k
			}
			if n == 0 {
				return nil, fmt.Errorf("no pair could be built")
			}
			rs := RunSpec{Dir: c.Mod, Patterns: []string{"./pairs/..."}, Prefix: "VerifC18", ArbNarrow: true,
				TargetPrefixes: []string{"github.com/vkd/goag/tests/", "github.com/vkd/goag/examples/", "vscratch/pkgs/"},
				ReplayPkgDir: func(h string) string {
					i := strings.Index(h, "pairs/")
					if i < 0 {
						return ""
					}
					rest := h[i+6:]
					if j := strings.Index(rest, "."); j >= 0 {
						rest = rest[:j]
					}
					return filepath.Join(c.Mod, "pairs", rest)
				}}
			return []RunSpec{rs}, nil
		},
	})
}

func mustRead(f string) []byte {
	bs, _ := os.ReadFile(f)
	return bs
}
