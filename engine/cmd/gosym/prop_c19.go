package main

const c19Harness = `//go:build verif

package goag

import (
	"github.com/getkin/kin-openapi/openapi3"

	"github.com/vkd/goag/generator"
	"github.com/vkd/goag/vrt"
)

const verifC19SpecPlain = "openapi: 3.0.3\ninfo:\n  title: t\n  version: 0.0.1\npaths:\n  /a:\n    get:\n      responses:\n        '200':\n          description: ok\n"
const verifC19SpecComponents = verifC19SpecPlain + "components:\n  schemas:\n    Item:\n      type: object\n      properties:\n        id:\n          type: integer\n"

// verifC19Spec: under the symbolic engine the spec pipeline is stubbed (the
// document is never looked at); natively a real document with the same meaning.
func verifC19Spec(hasComponents bool) (*openapi3.Swagger, []byte) {
	if vrt.Symbolic() {
		return nil, nil
	}
	src := verifC19SpecPlain
	if hasComponents {
		src = verifC19SpecComponents
	}
	s, err := openapi3.NewSwaggerLoader().LoadSwaggerFromData([]byte(src))
	if err != nil {
		panic(err)
	}
	return s, []byte(src)
}

var verifC19Owned = [5]string{"components.go", "handler.go", "router.go", "spec_file.go", "client.go"}
var verifC19Foreign = [2]string{"user_code.go", "README.md"}

func verifC19Run(g Generator, hasComponents bool) error {
	vrt.SetHasComponents(hasComponents)
	spec, raw := verifC19Spec(hasComponents)
	return g.Generate(spec, vrt.FSDir(), "test", raw, "openapi.yaml", "/base", generator.Config{})
}

// VerifC19Step: one invocation from an ARBITRARY directory state gives, on the
// goag-owned names, exactly what the same invocation gives from an empty
// directory; foreign files are untouched; running it again changes nothing.
// (One step from an arbitrary state covers histories of any length.)
func VerifC19Step() {
	hasC := vrt.Bool("spec_has_components")
	g := Generator{GenClient: vrt.Bool("gen_client"), GenAPIHandler: vrt.Bool("gen_api_handler"), DoNotEdit: true}
	vrt.SetRenderParses(true)

	vrt.FSSelect(1)
	var preF [2]bool
	var preC [2]string
	for i := 0; i < 5; i++ {
		// stale content: short arbitrary bytes, or longer than anything goag writes
		old := vrt.String("pre_content_owned", 3)
		if vrt.Bool("pre_content_long") {
			old = vrt.Blob("pre_blob")
		}
		vrt.FSSet(verifC19Owned[i], vrt.Bool("pre_exists_owned"), old)
	}
	for i := 0; i < 2; i++ {
		preF[i] = vrt.Bool("pre_exists_foreign")
		preC[i] = vrt.String("pre_content_foreign", 3)
		vrt.FSSet(verifC19Foreign[i], preF[i], preC[i])
	}
	errA := verifC19Run(g, hasC)
	vrt.FSSelect(2)
	errB := verifC19Run(g, hasC)
	vrt.Assume(errA == nil && errB == nil)
	vrt.Reach("both-runs-succeeded")

	var ex [5]bool
	var co [5]string
	for i := 0; i < 5; i++ {
		vrt.FSSelect(2)
		e2, c2 := vrt.FSExists(verifC19Owned[i]), vrt.FSContent(verifC19Owned[i])
		vrt.FSSelect(1)
		ex[i], co[i] = vrt.FSExists(verifC19Owned[i]), vrt.FSContent(verifC19Owned[i])
		vrt.Assert(ex[i] == e2, "a goag-owned file exists after the run although a run into an empty directory does not produce it (or vice versa)")
		if ex[i] && e2 {
			vrt.Assert(co[i] == c2, "a goag-owned file does not have the content a run into an empty directory gives it")
		}
	}
	vrt.FSSelect(1)
	for i := 0; i < 2; i++ {
		vrt.Assert(vrt.FSExists(verifC19Foreign[i]) == preF[i], "a file goag does not own was created or removed")
		if preF[i] {
			vrt.Assert(vrt.FSContent(verifC19Foreign[i]) == preC[i], "a file goag does not own was modified")
		}
	}
	// idempotence
	errC := verifC19Run(g, hasC)
	vrt.Assume(errC == nil)
	for i := 0; i < 5; i++ {
		vrt.Assert(vrt.FSExists(verifC19Owned[i]) == ex[i], "re-running the same invocation changed the set of files")
		if ex[i] {
			vrt.Assert(vrt.FSContent(verifC19Owned[i]) == co[i], "re-running the same invocation changed a file")
		}
	}
	vrt.FSCleanup()
}
`

func init() {
	register(&Prop{
		ID: "C19", Level: "model_checking",
		Rule: "one harness: the pre-state of the output directory (existence and content of each of the 5 goag-owned names and 2 foreign names) and the invocation (client on/off, api handler on/off, spec with/without components) are solver variables; the real Generate / RenderToFile / WriteToFile are executed over a file-system model",
		Assumptions: []string{
			"specification.ParseSwagger, generator.NewGenerator, GoFile.Render, imports.Process are contract stubs that succeed (the property speaks of what an invocation produces); rendered text is a function of the GoFile value",
			"the file-system model is POSIX create/truncate/unlink on regular files in one directory (DESIGN 11.8); file offsets are not modelled",
			"one inductive step from an arbitrary directory state stands for histories of any length",
		},
		Build: func(c *Ctx) ([]RunSpec, error) {
			if err := c.repoHarness(".", "zz_verif_c19.go", c19Harness); err != nil {
				return nil, err
			}
			rs := repoRunSpec(c, ".", "VerifC19")
			rs.Stubs = []string{"genfs"}
			return []RunSpec{rs}, nil
		},
	})
}
