package main

import "fmt"

func init() {
	register(&Prop{
		ID: "C20", Level: "other",
		Explanation: "C20 is decided as write confinement (DESIGN 4/C20, 12.3): every generated server path, response writer and client call of every corpus package is executed symbolically with the heap partitioned into state shared between requests (package-level variables and what their initialisers allocate, everything reachable from the API and Client values except user closures) and per-request state; every store, map update, io.CopyBuffer scratch buffer, every use of an object after sync.Pool.Put, and every read of what another request may have left in a pooled map is an obligation; a finding is reported only when z3 finds its path feasible AND the native replay shows it (race detector with 4 goroutines x 50 requests; for pool leftovers, the pool hands out a non-empty object after the request). Goroutine interleavings are not explored by the solver: that no shared location is written makes every interleaving equivalent to a serial run, which is an argument, not a solver result - hence level 'other'.",
		Rule: "per operation of every corpus package up to three harnesses (raw request with arbitrary credentials / designated parameter / body; every response implementer incl. streaming bodies; client call with arbitrary Params and arbitrary response); the executor's heap monitor turns every store, map update and scratch-buffer use whose target is a package-level variable or reachable from the shared API / Client value into a finding whose feasibility z3 decides; use of an object after sync.Pool.Put likewise",
		Assumptions: []string{
			"write confinement is the sufficient condition decided here: if no path writes state shared between requests, every interleaving of any number of requests is equivalent to a serial one; goroutine schedules themselves are not explored (sequential executor)",
			"shared state = package-level variables + everything reachable from the API and Client values (not through user closures); user handlers, middlewares and authenticators are outside",
			"the standard library is race-free when used through request-local instances; sync primitives other than sync.Pool are not modelled (a path using them is reported inconclusive, never as a pass)",
		},
		Build: func(c *Ctx) ([]RunSpec, error) {
			if err := prepare(c); err != nil {
				return nil, err
			}
			f := onlyFilter()
			c.Fixtures(f)
			// P, B and A at their quick sizes in both tiers (the thorough sizes multiply the
			// number of operations by five without adding code shapes); thorough adds the
			// schema family: bodies with nested generated codecs
			tier := c.Tier
			c.Tier = "quick"
			genParamFamily(c, f)
			genResponseFamily(c, f)
			genSecurityFamily(c, f)
			if tier == "thorough" {
				// thorough adds the router family (typed path parameters, base paths, trailing
				// slashes) at its quick size; the schema family proved too expensive with the heap
				// monitor on (bodies with nested codecs are covered through the fixtures)
				genRouterFamily(c, f)
			}
			c.Tier = tier
			n := 0
			for _, u := range c.Pkgs {
				if !usable(u) {
					continue
				}
				k, err := genC20Harness(u)
				if err != nil {
					return nil, err
				}
				if k > 0 {
					if err := writeCommonHarness(u); err != nil {
						return nil, err
					}
					n += k
				}
			}
			if n == 0 {
				return nil, fmt.Errorf("no usable corpus package")
			}
			rs := stdRunSpec(c, "VerifC20")
			rs.WriteMon = true
			rs.SharedExplicit = true
			return []RunSpec{rs}, nil
		},
	})
}
