package main

import "fmt"

func init() {
	register(&Prop{
		ID: "C20", Level: "other",
		Rule: "per operation of every corpus package up to three harnesses (raw request with arbitrary credentials / designated parameter / body; every response implementer incl. streaming bodies; client call with arbitrary Params and arbitrary response); the executor's heap monitor turns every store, map update and scratch-buffer use whose target is a package-level variable or reachable from the shared API / Client value into a finding whose feasibility z3 decides; use of an object after sync.Pool.Put likewise",
		Assumptions: []string{
			"write confinement is the sufficient condition decided here: if no path writes state shared between requests, every interleaving of any number of requests is equivalent to a serial one; goroutine schedules themselves are not explored (sequential executor)",
			"shared state = package-level variables + everything reachable from the API and Client values (not through user closures); user handlers, middlewares and authenticators are outside",
			"the standard library is race-free when used through request-local instances; sync primitives other than sync.Pool are not modelled (a path using them is reported inconclusive, never as a pass)",
		},
		Build: func(c *Ctx) ([]RunSpec, error) {
			if err := prepare(c); err != nil {
				return nil, err
			}
			f := onlyFilter()
			c.Fixtures(f)
			genParamFamily(c, f)
			genResponseFamily(c, f)
			genSecurityFamily(c, f)
			if c.Tier == "thorough" {
				// the larger P/B/A families of the thorough tier plus the schema family (bodies with
				// nested codecs); the router family adds nothing the request harnesses do not already run
				genSchemaFamily(c, f)
			}
			n := 0
			for _, u := range c.Pkgs {
				if !usable(u) {
					continue
				}
				k, err := genC20Harness(u)
				if err != nil {
					return nil, err
				}
				if k > 0 {
					if err := writeCommonHarness(u); err != nil {
						return nil, err
					}
					n += k
				}
			}
			if n == 0 {
				return nil, fmt.Errorf("no usable corpus package")
			}
			rs := stdRunSpec(c, "VerifC20")
			rs.WriteMon = true
			rs.SharedExplicit = true
			return []RunSpec{rs}, nil
		},
	})
}
