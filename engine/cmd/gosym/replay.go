package main

import (
	"encoding/json"
	"fmt"
	"os"
	"os/exec"
	"path/filepath"
	"regexp"
	"sort"
	"strings"
	"time"

	"gosym/sym"
)

// Replayer compiles, once per package, a native test binary holding the same
// harness functions, and runs it with a solver model as input.
type Replayer struct {
	c     *Ctx
	bins  map[string]string
	errs  map[string]string
	nwit  int
}

func newReplayer(c *Ctx) *Replayer { return &Replayer{c: c, bins: map[string]string{}, errs: map[string]string{}} }
func (r *Replayer) Close()         {}
func (r *Replayer) Witnesses() int { return r.nwit }

var reHarnessFn = regexp.MustCompile(`(?m)^func (Verif\w+)\(\)`)
var rePkgClause = regexp.MustCompile(`(?m)^package (\w+)`)
var rePoolVar = regexp.MustCompile(`(?m)^var (\w+) = sync\.Pool\{`)

func (r *Replayer) build(dir string) (string, error) { return r.buildMode(dir, false) }

func (r *Replayer) buildMode(dir0 string, race bool) (string, error) {
	dir := dir0
	if race {
		dir = dir0 + "|race"
	}
	if b, ok := r.bins[dir]; ok {
		if b == "" {
			return "", fmt.Errorf("%s", r.errs[dir])
		}
		return b, nil
	}
	files, _ := filepath.Glob(filepath.Join(dir0, "zz_verif_*.go"))
	var names []string
	pkg := ""
	for _, f := range files {
		if strings.HasSuffix(f, "_test.go") {
			continue
		}
		bs, _ := os.ReadFile(f)
		for _, m := range reHarnessFn.FindAllStringSubmatch(string(bs), -1) {
			names = append(names, m[1])
		}
		if m := rePkgClause.FindStringSubmatch(string(bs)); m != nil {
			pkg = m[1]
		}
	}
	sort.Strings(names)
	var pools []string
	if all, _ := filepath.Glob(filepath.Join(dir0, "*.go")); true {
		for _, f := range all {
			if strings.HasSuffix(f, "_test.go") {
				continue
			}
			bs, _ := os.ReadFile(f)
			for _, m := range rePoolVar.FindAllStringSubmatch(string(bs), -1) {
				pools = append(pools, m[1])
			}
		}
	}
	sort.Strings(pools)
	vrtPath := "vscratch/vrt"
	modDir := r.c.Mod
	if strings.HasPrefix(dir0, r.c.Repo) {
		vrtPath = "github.com/vkd/goag/vrt"
		modDir = r.c.Repo
	}
	var sb strings.Builder
	sb.WriteString("//go:build verif\n\npackage " + pkg + "\n\nimport (\n\t\"fmt\"\n\t\"os\"\n\t\"reflect\"\n\t\"runtime/debug\"\n\t\"sync\"\n\t\"testing\"\n\n\t\"" + vrtPath + "\"\n)\n\nvar _ = reflect.ValueOf\n\nvar verifPools = map[string]*sync.Pool{\n")
	for _, pn := range pools {
		fmt.Fprintf(&sb, "\t%q: &%s,\n", pn, pn)
	}
	sb.WriteString("}\n\n")
	sb.WriteString("var verifHarnesses = map[string]func(){\n")
	for _, n := range names {
		fmt.Fprintf(&sb, "\t%q: %s,\n", n, n)
	}
	sb.WriteString(`}

func TestVerifReplay(t *testing.T) {
	h := verifHarnesses[os.Getenv("VERIF_HARNESS")]
	if h == nil {
		fmt.Println("VRT-NOHARNESS")
		return
	}
	defer func() {
		if r := recover(); r != nil {
			fmt.Printf("VRT-PANIC: %v\n%s\n", r, debug.Stack())
		}
	}()
	skipped, pan := vrt.Run(h)
	if skipped {
		fmt.Println("VRT-ASSUME-VIOLATED")
	}
	if pan != nil {
		fmt.Printf("VRT-PANIC: %v\n", pan)
	}
	// what this request left in the package's sync.Pools for the next one
	for name, pl := range verifPools {
		if v := pl.Get(); v != nil {
			rv := reflect.ValueOf(v)
			if (rv.Kind() == reflect.Map || rv.Kind() == reflect.Slice) && rv.Len() > 0 {
				fmt.Printf("VRT-POOL-DIRTY: %s hands out a non-empty %s after this request\n", name, rv.Type())
			}
		}
	}
	fmt.Println("VRT-DONE")
}
`)
	if err := os.WriteFile(filepath.Join(dir0, "zz_verif_replay_test.go"), []byte(sb.String()), 0o644); err != nil {
		return "", err
	}
	bin := filepath.Join(r.c.Scratch, "bin", "replay-"+reNonAlnum.ReplaceAllString(strings.TrimPrefix(dir, r.c.Scratch), "_"))
	args := []string{"test", "-c", "-vet=off", "-tags", "verif"}
	if race {
		args = append(args, "-race")
	}
	os.MkdirAll(filepath.Dir(bin), 0o755)
	rel, _ := filepath.Rel(modDir, dir0)
	env := goEnv()
	if race {
		env = append(env, "CGO_ENABLED=1")
	}
	out, err := runCmd(modDir, env, "go", append(args, "-o", bin, "./"+rel)...)
	if err != nil {
		r.bins[dir] = ""
		r.errs[dir] = "replay build failed: " + firstLine(out)
		return "", fmt.Errorf("%s", out)
	}
	r.bins[dir] = bin
	return bin, nil
}

func (r *Replayer) run(dir, harness string, model map[string]interface{}) (string, error) {
	return r.runMode(dir, harness, model, false)
}

func (r *Replayer) runMode(dir, harness string, model map[string]interface{}, race bool) (string, error) {
	bin, err := r.buildMode(dir, race)
	if err != nil {
		return "", err
	}
	mf := filepath.Join(r.c.Scratch, fmt.Sprintf("model-%d.json", time.Now().UnixNano()))
	bs, _ := json.Marshal(map[string]interface{}{"model": model})
	os.WriteFile(mf, bs, 0o644)
	defer os.Remove(mf)
	short := harness
	if i := strings.LastIndex(short, "."); i >= 0 {
		short = short[i+1:]
	}
	cmd := exec.Command("timeout", "120", bin, "-test.run", "^TestVerifReplay$", "-test.v")
	cmd.Dir = dir
	cmd.Env = append(os.Environ(), "VERIF_REPLAY="+mf, "VERIF_HARNESS="+short)
	if race {
		cmd.Env = append(cmd.Env, "VERIF_CONCURRENT=4", "GORACE=halt_on_error=0")
	}
	out, _ := cmd.CombinedOutput()
	return string(out), nil
}

// Replay runs the harness natively on the model; true if the same failure shows.
func (r *Replayer) Replay(dir string, f sym.Finding) (bool, string) {
	if dir == "" {
		return false, "no replay directory for harness"
	}
	if f.Model == nil {
		return false, "no model"
	}
	if f.Kind == "shared-write" && strings.Contains(f.Msg, "pool-state:") {
		// no data race to observe: run the request once, then look at what the pool hands out next
		out, err := r.run(dir, f.Harness, f.Model)
		if err != nil {
			return false, "replay build: " + firstLine(err.Error())
		}
		if i := strings.Index(out, "VRT-POOL-DIRTY:"); i >= 0 {
			return true, firstLine(out[i:])
		}
		return false, "after the native request the pools hand out empty objects"
	}
	if f.Kind == "shared-write" {
		// the per-request closure of the harness runs in four goroutines under the race detector
		out, err := r.runMode(dir, f.Harness, f.Model, true)
		if err != nil {
			return false, "race replay build: " + firstLine(err.Error())
		}
		if i := strings.Index(out, "WARNING: DATA RACE"); i >= 0 {
			rep := out[i:]
			if len(rep) > 1200 {
				rep = rep[:1200]
			}
			return true, "race detector, 4 goroutines x 50 requests: " + strings.ReplaceAll(rep, "\n", " | ")
		}
		return false, "the race detector did not report the write under 4 goroutines x 50 requests"
	}
	out, err := r.run(dir, f.Harness, f.Model)
	if err != nil {
		return false, "replay build: " + firstLine(err.Error())
	}
	switch f.Kind {
	case "assert":
		if strings.Contains(out, "VRT-ASSERT-FAILED: "+f.Msg) {
			return true, "assertion failed natively: " + f.Msg
		}
		if strings.Contains(out, "VRT-PANIC:") {
			return true, "native run panicked: " + firstLine(out[strings.Index(out, "VRT-PANIC:"):])
		}
	case "panic":
		if i := strings.Index(out, "VRT-PANIC:"); i >= 0 {
			return true, "native run panicked: " + firstLine(out[i:])
		}
	}
	tail := out
	if len(tail) > 300 {
		tail = tail[len(tail)-300:]
	}
	return false, "native run did not fail: " + strings.ReplaceAll(tail, "\n", " | ")
}

// ReplayWitness runs the harness natively on the inputs of a completed symbolic
// path. ok: the native run completed without a failed assertion and passed the
// same Reach labels. serious: the native run failed an assertion or panicked
// (the engine had decided every assertion of that path).
func (r *Replayer) ReplayWitness(dir, harness string, w *sym.Witness) (ok, serious bool, why string) {
	out, err := r.run(dir, harness, w.Model)
	if err != nil {
		return false, false, "replay build: " + firstLine(err.Error())
	}
	if i := strings.Index(out, "VRT-ASSERT-FAILED:"); i >= 0 {
		return false, true, firstLine(out[i:])
	}
	if i := strings.Index(out, "VRT-PANIC:"); i >= 0 {
		return false, true, firstLine(out[i:])
	}
	if strings.Contains(out, "VRT-ASSUME-VIOLATED") {
		return false, false, "the native inputs violate an assumption (opaque value pools)"
	}
	if !strings.Contains(out, "VRT-DONE") {
		return false, false, "the native run did not finish"
	}
	for _, l := range w.Reached {
		if !strings.Contains(out, "VRT-REACH: "+l) {
			return false, false, "the native run did not pass label " + l
		}
	}
	r.nwit++
	return true, false, ""
}
