package main

import (
	"encoding/json"
	"flag"
	"fmt"
	"os"
	"sort"
	"strings"
	"time"

	"gosym/sym"

	"golang.org/x/tools/go/packages"
	"golang.org/x/tools/go/ssa"
	"golang.org/x/tools/go/ssa/ssautil"
)

type RunOutput struct {
	Harnesses map[string]*sym.HarnessResult
	Solver    sym.SolverStats
	Fns       map[string]int
	Stubs     map[string]int
	Unsupp    map[string]int
	SharedWrites map[string]int
	LoadS     float64
	ExploreS  float64
	LoadErrors []string
}

// loadProgram loads packages (patterns relative to dir) with tests off, tag verif.
func loadProgram(dir string, patterns []string, tags string) (*ssa.Program, []*ssa.Package, []*packages.Package, []string, error) {
	cfg := &packages.Config{
		Mode: packages.NeedName | packages.NeedFiles | packages.NeedCompiledGoFiles | packages.NeedImports | packages.NeedDeps |
			packages.NeedTypes | packages.NeedSyntax | packages.NeedTypesInfo | packages.NeedTypesSizes | packages.NeedModule,
		Dir: dir,
		Env: append(os.Environ(), "GOFLAGS=-mod=mod", "GOPROXY=off", "GOSUMDB=off", "GOTOOLCHAIN=local"),
	}
	if tags != "" {
		cfg.BuildFlags = []string{"-tags=" + tags}
	}
	pkgs, err := packages.Load(cfg, patterns...)
	if err != nil {
		return nil, nil, nil, nil, err
	}
	var errs []string
	var good []*packages.Package
	for _, p := range pkgs {
		if len(p.Errors) > 0 {
			for _, e := range p.Errors {
				errs = append(errs, p.PkgPath+": "+e.Error())
			}
			continue
		}
		good = append(good, p)
	}
	// errors in dependencies
	packages.Visit(pkgs, nil, func(p *packages.Package) {
		for _, e := range p.Errors {
			s := p.PkgPath + ": " + e.Error()
			dup := false
			for _, x := range errs {
				if x == s {
					dup = true
				}
			}
			if !dup {
				errs = append(errs, s)
			}
		}
	})
	prog, spkgs := ssautil.AllPackages(good, ssa.InstantiateGenerics)
	prog.Build()
	return prog, spkgs, good, errs, nil
}

func cmdRun(args []string) int {
	fs := flag.NewFlagSet("run", flag.ExitOnError)
	dir := fs.String("dir", ".", "module directory")
	pats := fs.String("pkgs", "./...", "comma separated package patterns")
	prefix := fs.String("prefix", "Verif", "harness function name prefix")
	only := fs.String("only", "", "regex-free substring filter on harness names")
	out := fs.String("out", "", "write JSON results here")
	tags := fs.String("tags", "verif", "build tags")
	permute := fs.Bool("permute-maps", false, "symbolic map iteration order")
	workers := fs.Int("workers", 8, "workers")
	timeout := fs.Int("timeout", 20000, "solver timeout per query (ms)")
	unwind := fs.Int("unwind", 80, "unwinding bound")
	maxpaths := fs.Int("maxpaths", 200000, "max paths")
	wm := fs.Bool("write-monitor", false, "report writes to pre-existing objects")
	extraTargets := fs.String("targets", "", "extra target package paths (comma separated)")
	verbose := fs.Bool("v", false, "verbose")
	fs.Parse(args)

	t0 := time.Now()
	prog, spkgs, pkgs, errs, err := loadProgram(*dir, strings.Split(*pats, ","), *tags)
	if err != nil {
		fmt.Fprintln(os.Stderr, "load:", err)
		return 2
	}
	cfg := sym.DefaultConfig()
	cfg.PermuteMaps = *permute
	cfg.Workers = *workers
	cfg.TimeoutMs = *timeout
	cfg.Unwind = *unwind
	cfg.MaxPaths = *maxpaths
	cfg.WriteMonitor = *wm
	e := sym.NewEngine(prog, cfg)
	for _, p := range pkgs {
		e.TargetPaths[p.PkgPath] = true
	}
	for _, t := range strings.Split(*extraTargets, ",") {
		if t != "" {
			e.TargetPaths[t] = true
		}
	}
	var tasks []sym.Task
	for _, sp := range spkgs {
		if sp == nil {
			continue
		}
		var names []string
		for name, m := range sp.Members {
			if f, ok := m.(*ssa.Function); ok && strings.HasPrefix(name, *prefix) && len(f.Params) == 0 {
				if *only != "" && !strings.Contains(name, *only) {
					continue
				}
				names = append(names, name)
			}
		}
		sort.Strings(names)
		if len(names) > 0 {
			e.InitPkgs = append(e.InitPkgs, sp)
		}
		for _, n := range names {
			tasks = append(tasks, sym.Task{Harness: sp.Pkg.Path() + "." + n, Fn: sp.Func(n)})
		}
	}
	loadS := time.Since(t0).Seconds()
	st := sym.NewStats()
	t1 := time.Now()
	res, ss := e.Explore(tasks, st)
	ro := RunOutput{Harnesses: res, Solver: ss, Fns: st.Fns, Stubs: st.Stubs, Unsupp: st.Unsupp, SharedWrites: st.SharedWrites,
		LoadS: loadS, ExploreS: time.Since(t1).Seconds(), LoadErrors: errs}
	if *out != "" {
		bs, _ := json.MarshalIndent(ro, "", " ")
		os.WriteFile(*out, bs, 0o644)
	}
	if *verbose || *out == "" {
		var names []string
		for n := range res {
			names = append(names, n)
		}
		sort.Strings(names)
		for _, n := range names {
			r := res[n]
			fmt.Printf("%s: paths=%d outcomes=%v asserts=%d proved=%d unknown=%d findings=%d\n", n, r.Paths, r.Outcomes, r.Asserts, r.Proved, r.Unknown, len(r.Findings))
			for u, c := range r.Unsupp {
				fmt.Printf("   UNSUPPORTED x%d: %s\n", c, u)
			}
			for i, f := range r.Findings {
				if i >= 5 {
					fmt.Printf("   ... %d more\n", len(r.Findings)-5)
					break
				}
				bs, _ := json.Marshal(f.Model)
				fmt.Printf("   FINDING %s %q at %s known=%q model=%s\n", f.Kind, f.Msg, f.Pos, f.Known, bs)
			}
		}
		fmt.Printf("solver: %d queries (%d sat, %d unsat, %d unknown) %.2fs; load %.1fs explore %.1fs\n", ss.Queries, ss.Sat, ss.Unsat, ss.Unknown, ss.Time.Seconds(), loadS, ro.ExploreS)
		for _, e := range ss.Errors {
			fmt.Println("  solver error:", e)
		}
		for _, e := range errs {
			fmt.Println("  load error:", e)
		}
	}
	return 0
}
