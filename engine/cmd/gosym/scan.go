package main

// scan: syntactic inventory of a generated package (what goag emitted), used to
// write harnesses that compile against it. Facts about what the spec SAYS come
// from specref, never from here.

import (
	"go/ast"
	"go/parser"
	"go/token"
	"os"
	"path/filepath"
	"sort"
	"strconv"
	"strings"
)

type GenHandler struct {
	Field    string // API field name, e.g. GetShopsShopHandler
	FuncType string // GetShopsShopHandlerFunc
	Base     string // GetShopsShop
	Path     string // value returned by Path()
	Method   string // value returned by Method() (upper-case)
	ReqType  string
	RespType string
	WriteM   string // unexported method of the response interface
	HasParams bool
}

type GenPkg struct {
	Dir       string
	Name      string
	Handlers  []*GenHandler
	APIFields map[string]string // field -> type expr text
	HasCORS   bool
	SecFields []string // API fields of Security*Middleware type
	Funcs     map[string]*ast.FuncDecl
	Types     map[string]*ast.TypeSpec
	Methods   map[string]map[string]*ast.FuncDecl // recv type -> method -> decl
	HasClient bool
	Fset      *token.FileSet
	SpecFileConst bool
}

func exprText(e ast.Expr) string {
	switch x := e.(type) {
	case *ast.Ident:
		return x.Name
	case *ast.SelectorExpr:
		return exprText(x.X) + "." + x.Sel.Name
	case *ast.StarExpr:
		return "*" + exprText(x.X)
	case *ast.ArrayType:
		return "[]" + exprText(x.Elt)
	case *ast.IndexExpr:
		return exprText(x.X) + "[" + exprText(x.Index) + "]"
	case *ast.MapType:
		return "map[" + exprText(x.Key) + "]" + exprText(x.Value)
	case *ast.FuncType:
		return "func"
	case *ast.InterfaceType:
		return "interface{}"
	case *ast.Ellipsis:
		return "..." + exprText(x.Elt)
	}
	return "?"
}

var httpMethodConst = map[string]string{
	"MethodGet": "GET", "MethodPost": "POST", "MethodPut": "PUT", "MethodPatch": "PATCH", "MethodDelete": "DELETE",
	"MethodHead": "HEAD", "MethodOptions": "OPTIONS", "MethodTrace": "TRACE", "MethodConnect": "CONNECT",
}

func ScanGenPkg(dir string) (*GenPkg, error) {
	g := &GenPkg{Dir: dir, APIFields: map[string]string{}, Funcs: map[string]*ast.FuncDecl{}, Types: map[string]*ast.TypeSpec{},
		Methods: map[string]map[string]*ast.FuncDecl{}, Fset: token.NewFileSet()}
	ents, err := os.ReadDir(dir)
	if err != nil {
		return nil, err
	}
	for _, en := range ents {
		n := en.Name()
		if !strings.HasSuffix(n, ".go") || strings.HasSuffix(n, "_test.go") || strings.HasPrefix(n, "zz_verif") {
			continue
		}
		f, err := parser.ParseFile(g.Fset, filepath.Join(dir, n), nil, parser.SkipObjectResolution)
		if err != nil {
			return nil, err
		}
		if n == "client.go" {
			g.HasClient = true
		}
		g.Name = f.Name.Name
		for _, d := range f.Decls {
			switch x := d.(type) {
			case *ast.GenDecl:
				for _, sp := range x.Specs {
					switch s := sp.(type) {
					case *ast.TypeSpec:
						g.Types[s.Name.Name] = s
					case *ast.ValueSpec:
						for _, nm := range s.Names {
							if nm.Name == "SpecFile" {
								g.SpecFileConst = true
							}
						}
					}
				}
			case *ast.FuncDecl:
				if x.Recv == nil {
					g.Funcs[x.Name.Name] = x
					continue
				}
				rt := strings.TrimPrefix(exprText(x.Recv.List[0].Type), "*")
				if i := strings.Index(rt, "["); i >= 0 {
					rt = rt[:i]
				}
				if g.Methods[rt] == nil {
					g.Methods[rt] = map[string]*ast.FuncDecl{}
				}
				g.Methods[rt][x.Name.Name] = x
			}
		}
	}
	api := g.Types["API"]
	if api == nil {
		return g, nil
	}
	st, ok := api.Type.(*ast.StructType)
	if !ok {
		return g, nil
	}
	for _, fl := range st.Fields.List {
		tt := exprText(fl.Type)
		for _, nm := range fl.Names {
			g.APIFields[nm.Name] = tt
			if nm.Name == "CORSHandler" {
				g.HasCORS = true
			}
			if strings.HasPrefix(nm.Name, "Security") {
				g.SecFields = append(g.SecFields, nm.Name)
			}
			if strings.HasSuffix(tt, "HandlerFunc") && strings.HasSuffix(nm.Name, "Handler") && nm.Name != "CORSHandler" {
				h := &GenHandler{Field: nm.Name, FuncType: tt, Base: strings.TrimSuffix(tt, "HandlerFunc")}
				if ms := g.Methods[tt]; ms != nil {
					h.Path = returnedString(ms["Path"])
					h.Method = returnedString(ms["Method"])
				}
				// func(ctx context.Context, r XRequest) XResponse
				if ts := g.Types[tt]; ts != nil {
					if ft, ok := ts.Type.(*ast.FuncType); ok && ft.Results != nil && len(ft.Results.List) == 1 && len(ft.Params.List) == 2 {
						h.ReqType = exprText(ft.Params.List[1].Type)
						h.RespType = exprText(ft.Results.List[0].Type)
					}
				}
				if rs := g.Types[h.RespType]; rs != nil {
					if it, ok := rs.Type.(*ast.InterfaceType); ok && len(it.Methods.List) == 1 && len(it.Methods.List[0].Names) == 1 {
						h.WriteM = it.Methods.List[0].Names[0].Name
					}
				}
				_, h.HasParams = g.Types[h.Base+"Params"]
				g.Handlers = append(g.Handlers, h)
			}
		}
	}
	sort.Strings(g.SecFields)
	return g, nil
}

func returnedString(fd *ast.FuncDecl) string {
	if fd == nil || fd.Body == nil {
		return ""
	}
	for _, st := range fd.Body.List {
		if r, ok := st.(*ast.ReturnStmt); ok && len(r.Results) == 1 {
			switch x := r.Results[0].(type) {
			case *ast.BasicLit:
				if s, err := strconv.Unquote(x.Value); err == nil {
					return s
				}
			case *ast.SelectorExpr:
				if m, ok := httpMethodConst[x.Sel.Name]; ok {
					return m
				}
			}
		}
	}
	return ""
}

// ResponseImplementers lists named types having method `write<Op>` (syntactic).
func (g *GenPkg) ResponseImplementers(writeM string) []string {
	var out []string
	for t, ms := range g.Methods {
		if _, ok := ms[writeM]; ok {
			out = append(out, t)
		}
	}
	sort.Strings(out)
	return out
}
