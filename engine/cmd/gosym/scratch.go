package main

import (
	"bytes"
	"fmt"
	"os"
	"os/exec"
	"path/filepath"
	"sort"
	"strings"
	"time"
)

// repoDir: the tree under test. VERIF_REPO_DEV overrides it for development runs
// against a clean export while /repo is busy (registered commands never set it).
var repoDir = func() string {
	if d := os.Getenv("VERIF_REPO_DEV"); d != "" {
		return d
	}
	return "/repo"
}()
const verifDir = "/verif"

type GenFlags struct {
	Client     bool
	DoNotEdit  bool
	BasePath   string
	NoAPI      bool
	SpecName   string // --spec-handler-name
}

type PkgUnit struct {
	Name    string // directory name under pkgs/
	Dir     string
	Family  string
	Flags   GenFlags
	Spec    *SpecRef
	Gen     *GenPkg
	GenErr  string // generator exited non-zero (clean rejection)
	GenOut  string
	LoadErr string
	Cfg     string
	Meta    map[string]string
}

type Ctx struct {
	Prop    string
	Tier    string
	Seed    int64
	Scratch string
	Repo    string // scratch copy of /repo
	Mod     string // scratch module with generated packages
	Goag    string
	Pkgs    []*PkgUnit
	T0      time.Time
	Notes   []string
	Info    []string // reported in the evidence, not a reason for an inconclusive verdict
	Keep    bool
}

func goEnv() []string {
	return append(os.Environ(), "GOFLAGS=-mod=mod", "GOPROXY=off", "GOSUMDB=off", "GOTOOLCHAIN=local", "CGO_ENABLED=0")
}

func runCmd(dir string, env []string, name string, args ...string) (string, error) {
	cmd := exec.Command(name, args...)
	cmd.Dir = dir
	if env != nil {
		cmd.Env = env
	}
	var buf bytes.Buffer
	cmd.Stdout = &buf
	cmd.Stderr = &buf
	err := cmd.Run()
	return buf.String(), err
}

func NewCtx(prop, tier string, seed int64) (*Ctx, error) {
	base := os.Getenv("VERIF_SCRATCH")
	if base == "" {
		base = os.TempDir()
	}
	dir, err := os.MkdirTemp(base, "verif-"+prop+"-")
	if err != nil {
		return nil, err
	}
	c := &Ctx{Prop: prop, Tier: tier, Seed: seed, Scratch: dir, Repo: filepath.Join(dir, "repo"), Mod: filepath.Join(dir, "mod"), T0: time.Now()}
	c.Keep = os.Getenv("VERIF_KEEP") != ""
	// copy /repo's working tree (not .git)
	if out, err := runCmd("", nil, "rsync", "-a", "--exclude", ".git", repoDir+"/", c.Repo+"/"); err != nil {
		return c, fmt.Errorf("copy repo: %v: %s", err, out)
	}
	return c, nil
}

func (c *Ctx) Cleanup() {
	if c.Keep {
		fmt.Fprintln(os.Stderr, "scratch kept:", c.Scratch)
		return
	}
	os.RemoveAll(c.Scratch)
}

// BuildGoag compiles cmd/goag from the scratch copy of the current tree.
func (c *Ctx) BuildGoag() error {
	c.Goag = filepath.Join(c.Scratch, "bin", "goag")
	os.MkdirAll(filepath.Dir(c.Goag), 0o755)
	out, err := runCmd(c.Repo, goEnv(), "go", "build", "-o", c.Goag, "./cmd/goag")
	if err != nil {
		return fmt.Errorf("build goag: %v\n%s", err, out)
	}
	return nil
}

// InitMod creates the scratch module that holds generated packages + vrt.
func (c *Ctx) InitMod() error {
	os.MkdirAll(filepath.Join(c.Mod, "vrt"), 0o755)
	os.MkdirAll(filepath.Join(c.Mod, "pkgs"), 0o755)
	gomod := "module vscratch\n\ngo 1.23\n\nrequire github.com/vkd/goag v0.0.0\n\nreplace github.com/vkd/goag => ../repo\n"
	if err := os.WriteFile(filepath.Join(c.Mod, "go.mod"), []byte(gomod), 0o644); err != nil {
		return err
	}
	if bs, err := os.ReadFile(filepath.Join(c.Repo, "go.sum")); err == nil {
		os.WriteFile(filepath.Join(c.Mod, "go.sum"), bs, 0o644)
	}
	bs, err := os.ReadFile(filepath.Join(verifDir, "vrt", "vrt.go"))
	if err != nil {
		return err
	}
	return os.WriteFile(filepath.Join(c.Mod, "vrt", "vrt.go"), bs, 0o644)
}

// GenPackage runs the freshly built generator on one spec.
func (c *Ctx) GenPackage(name, family string, spec []byte, cfg string, fl GenFlags) *PkgUnit {
	u := &PkgUnit{Name: name, Dir: filepath.Join(c.Mod, "pkgs", name), Family: family, Flags: fl, Cfg: cfg, Meta: map[string]string{}}
	os.MkdirAll(u.Dir, 0o755)
	specFile := "openapi.yaml"
	os.WriteFile(filepath.Join(u.Dir, specFile), spec, 0o644)
	if cfg != "" {
		os.WriteFile(filepath.Join(u.Dir, ".goag.yaml"), []byte(cfg), 0o644)
	}
	args := []string{"--file", specFile, "--out", ".", "--package", "test",
		fmt.Sprintf("--client=%v", fl.Client), fmt.Sprintf("--donotedit=%v", fl.DoNotEdit)}
	if fl.BasePath != "" {
		args = append(args, "--basepath", fl.BasePath)
	}
	if fl.NoAPI {
		args = append(args, "--api-handler=false")
	}
	if fl.SpecName != "" {
		args = append(args, "--spec-handler-name", fl.SpecName)
	}
	out, err := runCmd(u.Dir, nil, c.Goag, args...)
	u.GenOut = out
	if err != nil {
		u.GenErr = strings.TrimSpace(out)
		if u.GenErr == "" {
			u.GenErr = err.Error()
		}
		c.Pkgs = append(c.Pkgs, u)
		return u
	}
	sr, err := LoadSpecRef(filepath.Join(u.Dir, specFile), fl.BasePath)
	if err != nil {
		u.GenErr = "specref: " + err.Error()
	}
	u.Spec = sr
	g, err := ScanGenPkg(u.Dir)
	if err != nil {
		u.LoadErr = "scan: " + err.Error()
	}
	u.Gen = g
	c.Pkgs = append(c.Pkgs, u)
	return u
}

// Fixtures regenerates every tests/* and examples/* fixture of the copied tree.
func (c *Ctx) Fixtures(filter func(name string) bool) {
	for _, root := range []string{"tests", "examples"} {
		ents, _ := os.ReadDir(filepath.Join(c.Repo, root))
		var names []string
		for _, e := range ents {
			if e.IsDir() {
				names = append(names, e.Name())
			}
		}
		sort.Strings(names)
		for _, n := range names {
			if filter != nil && !filter(n) {
				continue
			}
			src := filepath.Join(c.Repo, root, n)
			spec, err := os.ReadFile(filepath.Join(src, "openapi.yaml"))
			if err != nil {
				continue
			}
			cfg, _ := os.ReadFile(filepath.Join(src, ".goag.yaml"))
			pfx := "f_"
			if root == "examples" {
				pfx = "e_"
			}
			u := c.GenPackage(pfx+n, "F", spec, string(cfg), GenFlags{Client: true, DoNotEdit: false})
			// user-written companion files of the fixture (custom types)
			if ms, _ := filepath.Glob(filepath.Join(src, "models.go")); len(ms) > 0 {
				bs, _ := os.ReadFile(ms[0])
				os.WriteFile(filepath.Join(u.Dir, "models.go"), bs, 0o644)
			}
		}
	}
}
