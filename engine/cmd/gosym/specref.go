package main

// specref: an independent reader of OpenAPI documents. It parses the YAML/JSON
// with gopkg.in/yaml.v3 into plain trees and derives the facts the oracles
// need. It shares no code with goag's specification/ package or kin-openapi.

import (
	"fmt"
	"net/http"
	"net/url"
	"os"
	"sort"
	"strings"

	"gopkg.in/yaml.v3"
)

type M = map[string]interface{}

type SpecRef struct {
	Doc      M
	BasePath string // as derived from servers[0] (or flag), trailing slash stripped
	RawBase  string
	Ops      []*OpRef
	Tmpls    []*TmplRef
	File     string
}

type TmplRef struct {
	Raw    string
	Segs   []SegRef
	Ops    map[string]*OpRef // by upper-case method
	Item   M
	Rank   int
}

type SegRef struct {
	Lit   string
	IsVar bool
	Var   string
}

type ParamRef struct {
	Name     string
	In       string
	Required bool
	Schema   M // resolved schema (one level of $ref followed), may be nil
	IsArray  bool
	Items    M
	Kind     string // "string","int","int32","int64","float32","float64","bool","time","custom","other"
	Raw      M
}

type OpRef struct {
	Method   string // upper case
	Tmpl     *TmplRef
	Node     M
	Params   []*ParamRef // effective (path-item overridden by operation)
	Security [][]string  // effective alternatives (scheme names); nil = public
	HasSec   bool
	ID       string
}

var methodOrder = []string{"get", "post", "put", "patch", "delete", "head", "options", "trace", "connect"}

func asM(v interface{}) M {
	m, _ := v.(M)
	return m
}
func asL(v interface{}) []interface{} {
	l, _ := v.([]interface{})
	return l
}
func asS(v interface{}) string {
	s, _ := v.(string)
	return s
}

func LoadSpecRef(file string, basePathFlag string) (*SpecRef, error) {
	bs, err := os.ReadFile(file)
	if err != nil {
		return nil, err
	}
	var doc M
	if err := yaml.Unmarshal(bs, &doc); err != nil {
		return nil, fmt.Errorf("specref yaml: %w", err)
	}
	doc = normYAML(doc).(M)
	s := &SpecRef{Doc: doc, File: file}
	// base path
	base := basePathFlag
	if base == "" {
		if servers := asL(doc["servers"]); len(servers) > 0 {
			sv := asM(servers[0])
			raw := asS(sv["url"])
			vars := asM(sv["variables"])
			// substitute until fixpoint in sorted key order (the order is
			// irrelevant unless one default contains another variable)
			keys := make([]string, 0, len(vars))
			for k := range vars {
				keys = append(keys, k)
			}
			sort.Strings(keys)
			for _, k := range keys {
				if def, ok := asM(vars[k])["default"].(string); ok {
					raw = strings.ReplaceAll(raw, "{"+k+"}", def)
				}
			}
			if u, err := url.Parse(raw); err == nil {
				base = u.Path
			}
		}
	}
	s.RawBase = base
	s.BasePath = strings.TrimSuffix(base, "/")
	paths := asM(doc["paths"])
	var names []string
	for k := range paths {
		names = append(names, k)
	}
	sort.Strings(names)
	globalSec, hasGlobal := doc["security"]
	for _, raw := range names {
		item := asM(paths[raw])
		t := &TmplRef{Raw: raw, Ops: map[string]*OpRef{}, Item: item}
		segs := strings.Split(strings.TrimPrefix(raw, "/"), "/")
		for _, sg := range segs {
			if strings.HasPrefix(sg, "{") && strings.HasSuffix(sg, "}") {
				t.Segs = append(t.Segs, SegRef{IsVar: true, Var: sg[1 : len(sg)-1]})
			} else {
				t.Segs = append(t.Segs, SegRef{Lit: sg})
			}
		}
		itemParams := s.params(asL(item["parameters"]))
		for _, m := range methodOrder {
			node := asM(item[m])
			if node == nil {
				continue
			}
			op := &OpRef{Method: strings.ToUpper(m), Tmpl: t, Node: node, ID: asS(node["operationId"])}
			own := s.params(asL(node["parameters"]))
			// path-item parameters overridden by same (name,in) operation parameters
			for _, ip := range itemParams {
				over := false
				for _, op2 := range own {
					if op2.Name == ip.Name && op2.In == ip.In {
						over = true
					}
				}
				if !over {
					op.Params = append(op.Params, ip)
				}
			}
			op.Params = append(op.Params, own...)
			// security
			sec, has := node["security"]
			if !has && hasGlobal {
				sec, has = globalSec, true
			}
			if has {
				op.HasSec = true
				for _, alt := range asL(sec) {
					var names []string
					for k := range asM(alt) {
						names = append(names, k)
					}
					sort.Strings(names)
					op.Security = append(op.Security, names)
				}
			}
			t.Ops[op.Method] = op
			s.Ops = append(s.Ops, op)
		}
		s.Tmpls = append(s.Tmpls, t)
	}
	// rank: literal before variable at the first differing segment
	sort.SliceStable(s.Tmpls, func(i, j int) bool { return tmplLess(s.Tmpls[i], s.Tmpls[j]) })
	for i, t := range s.Tmpls {
		t.Rank = i
	}
	return s, nil
}

func tmplLess(a, b *TmplRef) bool {
	n := len(a.Segs)
	if len(b.Segs) < n {
		n = len(b.Segs)
	}
	for i := 0; i < n; i++ {
		x, y := a.Segs[i], b.Segs[i]
		if x.IsVar != y.IsVar {
			return !x.IsVar
		}
		if !x.IsVar && x.Lit != y.Lit {
			return x.Lit < y.Lit
		}
	}
	return len(a.Segs) < len(b.Segs)
}

// normYAML converts map[interface{}]interface{} (none with yaml.v3) and
// integer keys (status codes) to string keys.
func normYAML(v interface{}) interface{} {
	switch x := v.(type) {
	case M:
		out := M{}
		for k, e := range x {
			out[k] = normYAML(e)
		}
		return out
	case map[interface{}]interface{}:
		out := M{}
		for k, e := range x {
			out[fmt.Sprint(k)] = normYAML(e)
		}
		return out
	case []interface{}:
		for i := range x {
			x[i] = normYAML(x[i])
		}
		return x
	}
	return v
}

// Resolve follows a local $ref chain.
func (s *SpecRef) Resolve(node M) M {
	for n := 0; n < 16 && node != nil; n++ {
		ref, ok := node["$ref"].(string)
		if !ok {
			return node
		}
		if !strings.HasPrefix(ref, "#/") {
			return nil
		}
		var cur interface{} = s.Doc
		for _, part := range strings.Split(ref[2:], "/") {
			part = strings.ReplaceAll(strings.ReplaceAll(part, "~1", "/"), "~0", "~")
			cur = asM(cur)[part]
		}
		node = asM(cur)
	}
	return node
}

func (s *SpecRef) params(list []interface{}) []*ParamRef {
	var out []*ParamRef
	for _, raw := range list {
		node := s.Resolve(asM(raw))
		if node == nil {
			continue
		}
		p := &ParamRef{Name: asS(node["name"]), In: asS(node["in"]), Raw: node}
		if r, ok := node["required"].(bool); ok {
			p.Required = r
		}
		p.Schema = s.Resolve(asM(node["schema"]))
		p.Kind = s.kindOf(p.Schema)
		if asS(p.Schema["type"]) == "array" {
			p.IsArray = true
			p.Items = s.Resolve(asM(p.Schema["items"]))
			if p.Kind != "custom" {
				p.Kind = s.kindOf(p.Items)
			}
		}
		out = append(out, p)
	}
	return out
}

func (s *SpecRef) kindOf(sch M) string {
	if sch == nil {
		return "other"
	}
	if _, ok := sch["x-goag-go-type"]; ok {
		return "custom"
	}
	f := asS(sch["format"])
	switch asS(sch["type"]) {
	case "string":
		if f == "date-time" {
			return "time"
		}
		return "string"
	case "integer":
		switch f {
		case "int32":
			return "int32"
		case "int64":
			return "int64"
		}
		return "int"
	case "number":
		if f == "float" {
			return "float32"
		}
		return "float64"
	case "boolean":
		return "bool"
	}
	return "other"
}

// SecurityScheme returns the scheme definition by name.
func (s *SpecRef) SecurityScheme(name string) M {
	return s.Resolve(asM(asM(asM(s.Doc["components"])["securitySchemes"])[name]))
}

func canonHeader(s string) string { return http.CanonicalHeaderKey(s) }
