package main

// Spec rewrites for C18: the same API written with components inlined at
// their use sites, or with inline definitions hoisted into components. Both
// work on the plain YAML tree (no goag code involved).

import (
	"fmt"
	"math/rand"
	"sort"
	"strings"

	"gopkg.in/yaml.v3"
)

func deepCopy(v interface{}) interface{} {
	switch x := v.(type) {
	case M:
		out := M{}
		for k, e := range x {
			out[k] = deepCopy(e)
		}
		return out
	case []interface{}:
		out := make([]interface{}, len(x))
		for i := range x {
			out[i] = deepCopy(x[i])
		}
		return out
	}
	return v
}

func parseSpecTree(spec []byte) (M, error) {
	var doc M
	if err := yaml.Unmarshal(spec, &doc); err != nil {
		return nil, err
	}
	return normYAML(doc).(M), nil
}

func lookupRef(doc M, ref string) (kind, name string, target M) {
	if !strings.HasPrefix(ref, "#/components/") {
		return "", "", nil
	}
	parts := strings.Split(ref[len("#/components/"):], "/")
	if len(parts) != 2 {
		return "", "", nil
	}
	return parts[0], parts[1], asM(asM(asM(doc["components"])[parts[0]])[parts[1]])
}

// inlineSpec replaces references to components by copies of their targets.
// pick decides per reference occurrence (nil = all). Left alone: oneOf members
// (variants are named types by construction), recursive references, and
// references goag treats as user types.
func inlineSpec(spec []byte, pick func(ref string) bool) ([]byte, int, error) {
	doc, err := parseSpecTree(spec)
	if err != nil {
		return nil, 0, err
	}
	n := 0
	var walk func(v interface{}, stack []string, underOneOf bool) interface{}
	walk = func(v interface{}, stack []string, underOneOf bool) interface{} {
		switch x := v.(type) {
		case M:
			if ref, ok := x["$ref"].(string); ok {
				kind, _, target := lookupRef(doc, ref)
				if target == nil || underOneOf || kind == "securitySchemes" {
					return x
				}
				for _, s := range stack {
					if s == ref {
						return x
					}
				}
				if _, custom := target["x-goag-go-type"]; custom {
					return x
				}
				if pick != nil && !pick(ref) {
					return x
				}
				n++
				return walk(deepCopy(target), append(append([]string{}, stack...), ref), false)
			}
			out := M{}
			for k, e := range x {
				switch k {
				case "discriminator", "securitySchemes", "security":
					out[k] = e
				case "oneOf", "anyOf":
					out[k] = walk(e, stack, true)
				default:
					out[k] = walk(e, stack, false)
				}
			}
			return out
		case []interface{}:
			out := make([]interface{}, len(x))
			for i := range x {
				out[i] = walk(x[i], stack, underOneOf)
			}
			return out
		}
		return v
	}
	// only use sites are rewritten: paths, and the bodies of components (so that a
	// component parameter's schema $ref is inlined too); the component tables stay
	paths := walk(doc["paths"], nil, false)
	comps := asM(doc["components"])
	newComps := M{}
	for kind, tbl := range comps {
		if kind == "securitySchemes" {
			newComps[kind] = tbl
			continue
		}
		nt := M{}
		for name, def := range asM(tbl) {
			nt[name] = walk(def, []string{"#/components/" + kind + "/" + name}, false)
		}
		newComps[kind] = nt
	}
	doc["paths"] = paths
	if len(newComps) > 0 {
		doc["components"] = newComps
	}
	out, err := yaml.Marshal(doc)
	return out, n, err
}

// hoistSpec moves inline parameters, parameter schemas, request bodies, body
// schemas, responses and response headers of every operation into components
// and leaves a $ref behind.
func hoistSpec(spec []byte) ([]byte, int, error) {
	doc, err := parseSpecTree(spec)
	if err != nil {
		return nil, 0, err
	}
	comps := asM(doc["components"])
	if comps == nil {
		comps = M{}
		doc["components"] = comps
	}
	table := func(kind string) M {
		t := asM(comps[kind])
		if t == nil {
			t = M{}
			comps[kind] = t
		}
		return t
	}
	n := 0
	fresh := func(kind, stem string) string {
		t := table(kind)
		for k := 1; ; k++ {
			name := fmt.Sprintf("%s%d", stem, k)
			if _, taken := t[name]; !taken {
				return name
			}
		}
	}
	isRef := func(m M) bool { _, ok := m["$ref"]; return ok }
	hoist := func(kind, stem string, def M) M {
		name := fresh(kind, stem)
		table(kind)[name] = def
		n++
		return M{"$ref": "#/components/" + kind + "/" + name}
	}
	hoistSchema := func(holder M) {
		sch := asM(holder["schema"])
		if sch == nil || isRef(sch) || len(sch) == 0 {
			return
		}
		if _, custom := sch["x-goag-go-type"]; custom {
			return
		}
		if _, ok := sch["oneOf"]; ok {
			return
		}
		holder["schema"] = hoist("schemas", "HoistedSchema", sch)
	}
	hoistParams := func(list []interface{}) {
		for i, raw := range list {
			p := asM(raw)
			if p == nil || isRef(p) {
				continue
			}
			hoistSchema(p)
			list[i] = hoist("parameters", "HoistedParam", p)
		}
	}
	paths := asM(doc["paths"])
	var names []string
	for k := range paths {
		names = append(names, k)
	}
	sort.Strings(names)
	for _, pn := range names {
		item := asM(paths[pn])
		hoistParams(asL(item["parameters"]))
		for _, m := range methodOrder {
			op := asM(item[m])
			if op == nil {
				continue
			}
			hoistParams(asL(op["parameters"]))
			if rb := asM(op["requestBody"]); rb != nil && !isRef(rb) {
				for _, mt := range asM(rb["content"]) {
					hoistSchema(asM(mt))
				}
				op["requestBody"] = hoist("requestBodies", "HoistedBody", rb)
			}
			resps := asM(op["responses"])
			var codes []string
			for c := range resps {
				codes = append(codes, c)
			}
			sort.Strings(codes)
			for _, c := range codes {
				r := asM(resps[c])
				if r == nil || isRef(r) {
					continue
				}
				for _, mt := range asM(r["content"]) {
					hoistSchema(asM(mt))
				}
				hs := asM(r["headers"])
				var hn []string
				for h := range hs {
					hn = append(hn, h)
				}
				sort.Strings(hn)
				for _, h := range hn {
					hd := asM(hs[h])
					if hd == nil || isRef(hd) {
						continue
					}
					hoistSchema(hd)
					hs[h] = hoist("headers", "HoistedHeader", hd)
				}
				resps[c] = hoist("responses", "HoistedResponse", r)
			}
		}
	}
	out, err := yaml.Marshal(doc)
	return out, n, err
}

// partialInline: a seeded random subset of reference occurrences is inlined.
func partialInline(spec []byte, seed int64) ([]byte, int, error) {
	rng := rand.New(rand.NewSource(seed))
	return inlineSpec(spec, func(string) bool { return rng.Intn(2) == 0 })
}
