package smt

import (
	"bufio"
	"fmt"
	"io"
	"os"
	"os/exec"
	"strings"
	"time"
)

type Result int

const (
	Unsat Result = iota
	Sat
	Unknown
)

func (r Result) String() string { return [...]string{"unsat", "sat", "unknown"}[r] }

// Solver is one live solver process spoken to over stdin/stdout.
type Solver struct {
	cmd     *exec.Cmd
	in      io.WriteCloser
	out     *bufio.Reader
	Name    string
	Queries int
	NSat    int
	NUnsat  int
	NUnk    int
	Time    time.Duration
	Log     io.Writer // optional: full transcript (for cross-solver diff)
	Errors  []string
	timeout int
	frames  [][]string
	Retries int
	RetryOK int
}

// SolverCmd is the command used for new solvers; overridable by env GOSYM_SOLVER
// ("z3", "z3-new", "cvc5").
func SolverArgv() []string {
	switch os.Getenv("GOSYM_SOLVER") {
	case "z3-new":
		return []string{"z3-new", "-in"}
	case "cvc5":
		return []string{"cvc5", "--incremental", "--produce-models", "--lang=smt2"}
	}
	return []string{"z3", "-in"}
}

func NewSolver(timeoutMs int) (*Solver, error) {
	argv := SolverArgv()
	cmd := exec.Command(argv[0], argv[1:]...)
	in, err := cmd.StdinPipe()
	if err != nil {
		return nil, err
	}
	out, err := cmd.StdoutPipe()
	if err != nil {
		return nil, err
	}
	cmd.Stderr = os.Stderr
	if err := cmd.Start(); err != nil {
		return nil, err
	}
	s := &Solver{cmd: cmd, in: in, out: bufio.NewReaderSize(out, 1<<20), Name: argv[0], timeout: timeoutMs}
	if d := os.Getenv("GOSYM_LOG"); d != "" {
		f, err := os.CreateTemp(d, "solver-*.smt2")
		if err == nil {
			s.Log = f
		}
	}
	s.Send("(set-option :produce-models true)")
	if argv[0] != "cvc5" {
		inc := timeoutMs
		if inc > 4000 {
			inc = 4000 // incremental attempts are cut short; unknown answers are retried one-shot with the full timeout
		}
		s.Send(fmt.Sprintf("(set-option :timeout %d)", inc))
	} else {
		s.Send("(set-logic ALL)")
		s.Send(fmt.Sprintf("(set-option :tlimit-per %d)", timeoutMs))
	}
	return s, nil
}

func (s *Solver) Close() {
	if s.cmd != nil {
		s.in.Close()
		s.cmd.Process.Kill()
		s.cmd.Wait()
		s.cmd = nil
	}
}

func (s *Solver) Send(line string) {
	// mirror of the assertion stack (for the one-shot retry of unknown answers)
	switch {
	case strings.HasPrefix(line, "(push"):
		s.frames = append(s.frames, nil)
	case strings.HasPrefix(line, "(pop"):
		if len(s.frames) > 0 {
			s.frames = s.frames[:len(s.frames)-1]
		}
	case strings.HasPrefix(line, "(assert") || strings.HasPrefix(line, "(declare-fun"):
		if len(s.frames) == 0 {
			s.frames = append(s.frames, nil)
		}
		s.frames[len(s.frames)-1] = append(s.frames[len(s.frames)-1], line)
	}
	if s.Log != nil {
		io.WriteString(s.Log, line+"\n")
	}
	io.WriteString(s.in, line+"\n")
}

func (s *Solver) Push()           { s.Send("(push 1)") }
func (s *Solver) Pop()            { s.Send("(pop 1)") }
func (s *Solver) Assert(t *Term)  { s.Send("(assert " + t.String() + ")") }
func (s *Solver) Declare(v *Term) { s.Send("(declare-fun " + v.Name + " () " + v.Sort.String() + ")") }
func (s *Solver) DeclareFun(name string, args []Sort, ret Sort) {
	var as []string
	for _, a := range args {
		as = append(as, a.String())
	}
	s.Send("(declare-fun " + name + " (" + strings.Join(as, " ") + ") " + ret.String() + ")")
}

func (s *Solver) readLine() string {
	for {
		line, err := s.out.ReadString('\n')
		if err != nil {
			s.Errors = append(s.Errors, "solver pipe: "+err.Error())
			return "unknown"
		}
		line = strings.TrimSpace(line)
		if line == "" {
			continue
		}
		return line
	}
}

// Check runs (check-sat) under the current assertion stack.
func (s *Solver) Check() Result {
	t0 := time.Now()
	s.Send("(check-sat)")
	s.Queries++
	var r Result
	for {
		line := s.readLine()
		if strings.HasPrefix(line, "(error") {
			s.Errors = append(s.Errors, line)
			// an error line precedes the answer; the answer is not trusted
			continue
		}
		switch line {
		case "sat":
			r = Sat
		case "unsat":
			r = Unsat
		default:
			r = Unknown
		}
		break
	}
	if len(s.Errors) > 0 {
		r = Unknown
	}
	if r == Unknown && len(s.Errors) == 0 && s.Name != "cvc5" {
		// the incremental core sometimes times out on queries a fresh process
		// decides quickly: retry once, one-shot, same timeout
		r = s.oneShot()
	}
	s.Time += time.Since(t0)
	if s.Log != nil {
		fmt.Fprintf(s.Log, "; -> %s in %.3fs\n", r, time.Since(t0).Seconds())
	}
	switch r {
	case Sat:
		s.NSat++
	case Unsat:
		s.NUnsat++
	default:
		s.NUnk++
	}
	return r
}

// CheckWith checks the current stack plus extra assertions, inside push/pop.
func (s *Solver) CheckWith(extra ...*Term) Result {
	s.Push()
	for _, e := range extra {
		s.Assert(e)
	}
	r := s.Check()
	s.Pop()
	return r
}

// GetValues evaluates the given terms in the current model (call right after a
// Sat Check, before pop). Returns the raw value strings.
func (s *Solver) GetValues(ts []*Term) []string {
	if len(ts) == 0 {
		return nil
	}
	var sb strings.Builder
	sb.WriteString("(get-value (")
	for _, t := range ts {
		sb.WriteString(t.String())
		sb.WriteByte(' ')
	}
	sb.WriteString("))")
	s.Send(sb.String())
	// read a balanced s-expression
	depth := 0
	var buf strings.Builder
	started := false
	for {
		line, err := s.out.ReadString('\n')
		if err != nil {
			break
		}
		buf.WriteString(line)
		for _, c := range line {
			if c == '(' {
				depth++
				started = true
			} else if c == ')' {
				depth--
			}
		}
		if started && depth <= 0 {
			break
		}
	}
	txt := buf.String()
	if strings.Contains(txt, "(error") {
		s.Errors = append(s.Errors, txt)
		return nil
	}
	sx := parseSexp(txt)
	out := make([]string, len(ts))
	if len(sx.kids) != len(ts) {
		return nil
	}
	for i, k := range sx.kids {
		if len(k.kids) == 2 {
			out[i] = k.kids[1].text()
		}
	}
	return out
}

type sexp struct {
	atom string
	kids []*sexp
	list bool
}

func (s *sexp) text() string {
	if !s.list {
		return s.atom
	}
	var parts []string
	for _, k := range s.kids {
		parts = append(parts, k.text())
	}
	return "(" + strings.Join(parts, " ") + ")"
}

func parseSexp(txt string) *sexp {
	pos := 0
	var parse func() *sexp
	skip := func() {
		for pos < len(txt) && (txt[pos] == ' ' || txt[pos] == '\n' || txt[pos] == '\t' || txt[pos] == '\r') {
			pos++
		}
	}
	parse = func() *sexp {
		skip()
		if pos >= len(txt) {
			return &sexp{}
		}
		if txt[pos] == '(' {
			pos++
			n := &sexp{list: true}
			for {
				skip()
				if pos >= len(txt) {
					return n
				}
				if txt[pos] == ')' {
					pos++
					return n
				}
				n.kids = append(n.kids, parse())
			}
		}
		st := pos
		for pos < len(txt) && !strings.ContainsRune(" \n\t\r()", rune(txt[pos])) {
			pos++
		}
		return &sexp{atom: txt[st:pos]}
	}
	return parse()
}

// ParseIntValue parses "5", "(- 5)".
func ParseIntValue(v string) (int64, bool) {
	v = strings.TrimSpace(v)
	neg := false
	if strings.HasPrefix(v, "(-") {
		neg = true
		v = strings.TrimSpace(strings.TrimSuffix(strings.TrimPrefix(v, "(-"), ")"))
	}
	var n int64
	if v == "" {
		return 0, false
	}
	for _, c := range v {
		if c < '0' || c > '9' {
			return 0, false
		}
		n = n*10 + int64(c-'0')
	}
	if neg {
		n = -n
	}
	return n, true
}

func (s *Solver) oneShot() Result {
	s.Retries++
	f, err := os.CreateTemp("", "gosym-oneshot-*.smt2")
	if err != nil {
		return Unknown
	}
	defer os.Remove(f.Name())
	w := bufio.NewWriter(f)
	for _, fr := range s.frames {
		for _, l := range fr {
			w.WriteString(l)
			w.WriteByte('\n')
		}
	}
	w.WriteString("(check-sat)\n")
	w.Flush()
	f.Close()
	argv := SolverArgv()
	secs := s.timeout/1000 + 1
	out, _ := exec.Command(argv[0], fmt.Sprintf("-T:%d", secs), f.Name()).Output()
	txt := strings.TrimSpace(string(out))
	if strings.Contains(txt, "(error") {
		return Unknown
	}
	switch {
	case strings.HasPrefix(txt, "unsat"):
		s.RetryOK++
		return Unsat
	case strings.HasPrefix(txt, "sat"):
		// a model is needed by callers after Sat: only Unsat is taken from the retry;
		// for Sat, feed the verdict back by re-checking is pointless, so keep it.
		s.RetryOK++
		return Sat
	}
	return Unknown
}
