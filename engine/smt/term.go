// Package smt is a small SMT-LIB2 term builder with constant folding and a
// pipe to an external solver process (z3 -in).
package smt

import (
	"fmt"
	"math/big"
	"sort"
	"strings"
)

type Sort int

const (
	SInt Sort = iota
	SBool
	SArr // (Array Int Int)
)

func (s Sort) String() string {
	switch s {
	case SInt:
		return "Int"
	case SBool:
		return "Bool"
	}
	return "(Array Int Int)"
}

type Term struct {
	Op   string // "int","bool","var", or an SMT operator
	Args []*Term
	Sort Sort
	I    *big.Int
	B    bool
	Name string
	str  string
}

var (
	True  = &Term{Op: "bool", Sort: SBool, B: true}
	False = &Term{Op: "bool", Sort: SBool, B: false}
)

func Int(i int64) *Term        { return &Term{Op: "int", Sort: SInt, I: big.NewInt(i)} }
func BigInt(i *big.Int) *Term  { return &Term{Op: "int", Sort: SInt, I: new(big.Int).Set(i)} }
func Bool(b bool) *Term {
	if b {
		return True
	}
	return False
}
func Var(name string, s Sort) *Term { return &Term{Op: "var", Sort: s, Name: name} }

func (t *Term) IsConst() bool { return t.Op == "int" || t.Op == "bool" }
func (t *Term) IsInt() bool   { return t.Op == "int" }
func (t *Term) IsTrue() bool  { return t.Op == "bool" && t.B }
func (t *Term) IsFalse() bool { return t.Op == "bool" && !t.B }
func (t *Term) Int64() (int64, bool) {
	if t.Op == "int" && t.I.IsInt64() {
		return t.I.Int64(), true
	}
	return 0, false
}

func (t *Term) String() string {
	if t.str != "" {
		return t.str
	}
	var s string
	switch t.Op {
	case "int":
		if t.I.Sign() < 0 {
			s = "(- " + new(big.Int).Neg(t.I).String() + ")"
		} else {
			s = t.I.String()
		}
	case "bool":
		if t.B {
			s = "true"
		} else {
			s = "false"
		}
	case "var":
		s = t.Name
	default:
		var sb strings.Builder
		sb.WriteByte('(')
		sb.WriteString(t.Op)
		for _, a := range t.Args {
			sb.WriteByte(' ')
			sb.WriteString(a.String())
		}
		sb.WriteByte(')')
		s = sb.String()
	}
	t.str = s
	return s
}

func mk(op string, s Sort, args ...*Term) *Term { return &Term{Op: op, Sort: s, Args: args} }

func Same(a, b *Term) bool {
	if a == b {
		return true
	}
	if a.Op != b.Op || a.Sort != b.Sort {
		return false
	}
	switch a.Op {
	case "int":
		return a.I.Cmp(b.I) == 0
	case "bool":
		return a.B == b.B
	case "var":
		return a.Name == b.Name
	}
	if len(a.Args) != len(b.Args) {
		return false
	}
	if len(a.Args) > 0 && a.str != "" && b.str != "" {
		return a.str == b.str
	}
	for i := range a.Args {
		if !Same(a.Args[i], b.Args[i]) {
			return false
		}
	}
	return true
}

// linear normal form helpers: split t into (symbolic part, constant)
func splitConst(t *Term) (*Term, *big.Int) {
	if t.Op == "int" {
		return nil, t.I
	}
	if t.Op == "+" && len(t.Args) == 2 && t.Args[1].Op == "int" {
		return t.Args[0], t.Args[1].I
	}
	return t, big.NewInt(0)
}

func joinConst(sym *Term, c *big.Int) *Term {
	if sym == nil {
		return BigInt(c)
	}
	if c.Sign() == 0 {
		return sym
	}
	return mk("+", SInt, sym, BigInt(c))
}

func Add(a, b *Term) *Term {
	as, ac := splitConst(a)
	bs, bc := splitConst(b)
	c := new(big.Int).Add(ac, bc)
	var sym *Term
	switch {
	case as == nil:
		sym = bs
	case bs == nil:
		sym = as
	default:
		// x + (-x)
		if bs.Op == "-" && len(bs.Args) == 1 && Same(bs.Args[0], as) {
			sym = nil
		} else if as.Op == "-" && len(as.Args) == 1 && Same(as.Args[0], bs) {
			sym = nil
		} else if as.Op == "-" && len(as.Args) == 2 && Same(as.Args[1], bs) {
			// (x - y) + y = x
			return Add(as.Args[0], BigInt(c))
		} else if bs.Op == "-" && len(bs.Args) == 2 && Same(bs.Args[1], as) {
			return Add(bs.Args[0], BigInt(c))
		} else {
			sym = mk("+", SInt, as, bs)
		}
	}
	return joinConst(sym, c)
}

func Neg(a *Term) *Term {
	if a.Op == "int" {
		return BigInt(new(big.Int).Neg(a.I))
	}
	if a.Op == "-" && len(a.Args) == 1 {
		return a.Args[0]
	}
	as, ac := splitConst(a)
	if ac.Sign() != 0 {
		return joinConst(mk("-", SInt, as), new(big.Int).Neg(ac))
	}
	return mk("-", SInt, a)
}

func Sub(a, b *Term) *Term {
	if Same(a, b) {
		return Int(0)
	}
	as, ac := splitConst(a)
	bs, bc := splitConst(b)
	c := new(big.Int).Sub(ac, bc)
	var sym *Term
	switch {
	case bs == nil:
		sym = as
	case as == nil:
		sym = mk("-", SInt, bs)
	case Same(as, bs):
		sym = nil
	default:
		// (x + y) - x = y ; (x+y) - y = x
		if as.Op == "+" && len(as.Args) == 2 {
			if Same(as.Args[0], bs) {
				return Add(as.Args[1], BigInt(c))
			}
			if Same(as.Args[1], bs) {
				return Add(as.Args[0], BigInt(c))
			}
		}
		sym = mk("-", SInt, as, bs)
	}
	return joinConst(sym, c)
}

func Mul(a, b *Term) *Term {
	if a.Op == "int" && b.Op == "int" {
		return BigInt(new(big.Int).Mul(a.I, b.I))
	}
	if a.Op == "int" {
		a, b = b, a
	}
	if b.Op == "int" {
		if b.I.Sign() == 0 {
			return Int(0)
		}
		if b.I.Cmp(big.NewInt(1)) == 0 {
			return a
		}
	}
	return mk("*", SInt, a, b)
}

// Div / Mod are SMT-LIB euclidean div/mod (callers build Go semantics on top).
func Div(a, b *Term) *Term {
	if a.Op == "int" && b.Op == "int" && b.I.Sign() != 0 {
		q, _ := new(big.Int).DivMod(a.I, b.I, new(big.Int))
		return BigInt(q)
	}
	return mk("div", SInt, a, b)
}

func Mod(a, b *Term) *Term {
	if a.Op == "int" && b.Op == "int" && b.I.Sign() != 0 {
		_, m := new(big.Int).DivMod(a.I, b.I, new(big.Int))
		return BigInt(m)
	}
	return mk("mod", SInt, a, b)
}

func Not(a *Term) *Term {
	if a.Op == "bool" {
		return Bool(!a.B)
	}
	if a.Op == "not" {
		return a.Args[0]
	}
	return mk("not", SBool, a)
}

func And(ts ...*Term) *Term {
	var out []*Term
	for _, t := range ts {
		if t.IsTrue() {
			continue
		}
		if t.IsFalse() {
			return False
		}
		if t.Op == "and" {
			out = append(out, t.Args...)
		} else {
			out = append(out, t)
		}
	}
	switch len(out) {
	case 0:
		return True
	case 1:
		return out[0]
	}
	return mk("and", SBool, out...)
}

func Or(ts ...*Term) *Term {
	var out []*Term
	for _, t := range ts {
		if t.IsFalse() {
			continue
		}
		if t.IsTrue() {
			return True
		}
		if t.Op == "or" {
			out = append(out, t.Args...)
		} else {
			out = append(out, t)
		}
	}
	switch len(out) {
	case 0:
		return False
	case 1:
		return out[0]
	}
	return mk("or", SBool, out...)
}

func Implies(a, b *Term) *Term { return Or(Not(a), b) }

func Eq(a, b *Term) *Term {
	if a.Sort != b.Sort {
		panic(fmt.Sprintf("smt.Eq: sort mismatch %v %v", a, b))
	}
	if a.IsConst() && b.IsConst() {
		if a.Sort == SInt {
			return Bool(a.I.Cmp(b.I) == 0)
		}
		return Bool(a.B == b.B)
	}
	if Same(a, b) {
		return True
	}
	if a.Sort == SBool {
		if a.IsTrue() {
			return b
		}
		if b.IsTrue() {
			return a
		}
		if a.IsFalse() {
			return Not(b)
		}
		if b.IsFalse() {
			return Not(a)
		}
	}
	if a.Sort == SInt {
		// x + c1 = c2  ==> x = c2-c1
		as, ac := splitConst(a)
		bs, bc := splitConst(b)
		if as != nil && bs != nil && Same(as, bs) {
			return Bool(ac.Cmp(bc) == 0)
		}
		if as != nil && bs == nil && ac.Sign() != 0 {
			return mk("=", SBool, as, BigInt(new(big.Int).Sub(bc, ac)))
		}
		if bs != nil && as == nil && bc.Sign() != 0 {
			return mk("=", SBool, bs, BigInt(new(big.Int).Sub(ac, bc)))
		}
	}
	return mk("=", SBool, a, b)
}

func cmp(op string, a, b *Term) *Term {
	if a.Op == "int" && b.Op == "int" {
		c := a.I.Cmp(b.I)
		switch op {
		case "<":
			return Bool(c < 0)
		case "<=":
			return Bool(c <= 0)
		case ">":
			return Bool(c > 0)
		case ">=":
			return Bool(c >= 0)
		}
	}
	as, ac := splitConst(a)
	bs, bc := splitConst(b)
	if as != nil && bs != nil && Same(as, bs) {
		return cmp(op, BigInt(ac), BigInt(bc))
	}
	return mk(op, SBool, a, b)
}

func Lt(a, b *Term) *Term { return cmp("<", a, b) }
func Le(a, b *Term) *Term { return cmp("<=", a, b) }
func Gt(a, b *Term) *Term { return cmp(">", a, b) }
func Ge(a, b *Term) *Term { return cmp(">=", a, b) }

func Ite(c, a, b *Term) *Term {
	if c.IsTrue() {
		return a
	}
	if c.IsFalse() {
		return b
	}
	if Same(a, b) {
		return a
	}
	if a.Sort == SBool {
		if a.IsTrue() && b.IsFalse() {
			return c
		}
		if a.IsFalse() && b.IsTrue() {
			return Not(c)
		}
	}
	return mk("ite", a.Sort, c, a, b)
}

func Select(arr, idx *Term) *Term {
	// read-over-write with constant indices
	for arr.Op == "store" {
		si, ok1 := arr.Args[1].Int64()
		ii, ok2 := idx.Int64()
		if ok1 && ok2 {
			if si == ii {
				return arr.Args[2]
			}
			arr = arr.Args[0]
			continue
		}
		break
	}
	return mk("select", SInt, arr, idx)
}

func Store(arr, idx, v *Term) *Term { return mk("store", SArr, arr, idx, v) }

// App builds an application of an uninterpreted function (declared by caller).
func App(fn string, s Sort, args ...*Term) *Term { return mk(fn, s, args...) }

// Vars collects free variables of t.
func Vars(t *Term, seen map[string]*Term) {
	if t.Op == "var" {
		seen[t.Name] = t
		return
	}
	for _, a := range t.Args {
		Vars(a, seen)
	}
}

func SortedNames(m map[string]*Term) []string {
	out := make([]string, 0, len(m))
	for k := range m {
		out = append(out, k)
	}
	sort.Strings(out)
	return out
}
