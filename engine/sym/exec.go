package sym

import (
	"fmt"
	"go/constant"
	"go/token"
	"go/types"
	"math/big"
	"strings"

	"gosym/smt"

	"golang.org/x/tools/go/ssa"
)

// control-flow sentinels (panicked through the host stack, recovered in RunPath)
type stopPath struct {
	kind string // "assume", "panic", "unsupported", "violation", "unwind", "infeasible", "done"
	msg  string
}

type goPanic struct {
	msg string
	pos string
}

type frame struct {
	fn     *ssa.Function
	locals map[ssa.Value]Value
	defers []func()
	visits map[*ssa.BasicBlock]int
}

func (p *Path) unsupported(format string, args ...interface{}) {
	msg := fmt.Sprintf(format, args...)
	if p.curIns != nil && !strings.Contains(msg, " at ") {
		msg += " at " + p.posOf(p.curIns)
	}
	panic(stopPath{kind: "unsupported", msg: msg})
}

func (p *Path) posOf(i ssa.Instruction) string {
	if i == nil {
		return "?"
	}
	pos := i.Pos()
	if !pos.IsValid() {
		if i.Parent() != nil {
			return i.Parent().String()
		}
		return "?"
	}
	ps := p.E.Prog.Fset.Position(pos)
	fn := ps.Filename
	if k := strings.LastIndex(fn, "/"); k >= 0 {
		fn = fn[k+1:]
	}
	return fmt.Sprintf("%s:%d", fn, ps.Line)
}

// goPanicAt records a Go-level panic reachable on this path.
func (p *Path) goPanicAt(site ssa.Instruction, format string, args ...interface{}) {
	panic(goPanic{msg: fmt.Sprintf(format, args...), pos: p.posOf(site)})
}

// ---------------------------------------------------------------- zero values

func (p *Path) zero(t types.Type) Value {
	switch u := t.Underlying().(type) {
	case *types.Basic:
		switch {
		case u.Info()&types.IsBoolean != 0:
			return mkBool(false)
		case u.Info()&types.IsInteger != 0:
			return mkInt(0)
		case u.Info()&types.IsFloat != 0:
			return FloatV{Conc: true, F: 0}
		case u.Info()&types.IsString != 0:
			return StrV{}
		case u.Kind() == types.UnsafePointer:
			return PtrV{}
		case u.Kind() == types.UntypedNil:
			return nil
		}
		p.unsupported("zero of basic %s", u)
	case *types.Pointer:
		return PtrV{Type: t}
	case *types.Struct:
		if isOpaqueType(t) || p.E.isTimeLike(t) {
			return OpaqueV{Type: t, Tok: smt.Int(0)}
		}
		fs := make([]Value, u.NumFields())
		for i := range fs {
			fs[i] = p.zero(u.Field(i).Type())
		}
		return StructV{F: fs}
	case *types.Array:
		es := make([]Value, int(u.Len()))
		for i := range es {
			es[i] = p.zero(u.Elem())
		}
		return ArrayV{E: es}
	case *types.Slice:
		return SliceV{}
	case *types.Map:
		return MapV{}
	case *types.Interface:
		return IfaceV{}
	case *types.Signature:
		return FuncV{}
	case *types.Chan:
		return PtrV{}
	case *types.Tuple:
		es := make([]Value, u.Len())
		for i := range es {
			es[i] = p.zero(u.At(i).Type())
		}
		return TupleV{E: es}
	}
	p.unsupported("zero of %s", t)
	return nil
}

func isOpaqueType(t types.Type) bool {
	if n, ok := types.Unalias(t).(*types.Named); ok && n.Obj().Pkg() != nil {
		full := n.Obj().Pkg().Path() + "." + n.Obj().Name()
		switch full {
		case "time.Time":
			return true
		}
	}
	return false
}

// ---------------------------------------------------------------- heap

func (p *Path) newObj(t types.Type, v Value) *Object {
	p.nobj++
	o := &Object{ID: p.nobj, Val: v, Type: t, Pre: p.initMode || (!p.entered && !p.E.Cfg.SharedExplicit)}
	return o
}

func getPath(v Value, path []int, p *Path) Value {
	for _, i := range path {
		switch x := v.(type) {
		case StructV:
			v = x.F[i]
		case ArrayV:
			if i < 0 || i >= len(x.E) {
				p.unsupported("internal: array path index %d out of %d", i, len(x.E))
			}
			v = x.E[i]
		default:
			p.unsupported("internal: getPath through %T", v)
		}
	}
	return v
}

func setPath(v Value, path []int, nv Value, p *Path) Value {
	if len(path) == 0 {
		return nv
	}
	i := path[0]
	switch x := v.(type) {
	case StructV:
		fs := make([]Value, len(x.F))
		copy(fs, x.F)
		fs[i] = setPath(fs[i], path[1:], nv, p)
		return StructV{F: fs}
	case ArrayV:
		es := make([]Value, len(x.E))
		copy(es, x.E)
		es[i] = setPath(es[i], path[1:], nv, p)
		return ArrayV{E: es}
	}
	p.unsupported("internal: setPath through %T", v)
	return nil
}

func (p *Path) load(ptr Value, site ssa.Instruction) Value {
	switch x := ptr.(type) {
	case PtrV:
		if x.Obj == nil {
			p.goPanicAt(site, "nil pointer dereference")
		}
		p.noteRead(x.Obj)
		return getPath(x.Obj.Val, x.Path, p)
	case RopePtr:
		return IntV{T: p.byteAt(x.S, x.Idx), Small: true}
	case Poison:
		p.unsupported("use of poisoned value: %s", x.Why)
	}
	p.unsupported("load through %T", ptr)
	return nil
}

func (p *Path) store(ptr Value, v Value, site ssa.Instruction) {
	x, ok := ptr.(PtrV)
	if !ok {
		p.unsupported("store through %T", ptr)
	}
	if x.Obj == nil {
		p.goPanicAt(site, "nil pointer dereference (store)")
	}
	p.noteWrite(x.Obj, site)
	x.Obj.Val = setPath(x.Obj.Val, x.Path, v, p)
}

// RopePtr is a read-only pointer into a rope-backed []byte.
type RopePtr struct {
	S   StrV
	Idx *smt.Term
}

// ---------------------------------------------------------------- calls

func (p *Path) isTarget(fn *ssa.Function) bool {
	if fn.Blocks == nil {
		return false
	}
	pkg := fn.Pkg
	if pkg == nil && fn.Origin() != nil {
		pkg = fn.Origin().Pkg
	}
	if pkg == nil {
		// synthetic wrapper / bound method / thunk: look at what it wraps
		if fn.Object() != nil && fn.Object().Pkg() != nil {
			return p.E.isTargetPath(fn.Object().Pkg().Path()) || p.E.Transparent[fnKey(fn)]
		}
		return true
	}
	if p.E.isTargetPath(pkg.Pkg.Path()) {
		return true
	}
	return p.E.Transparent[fnKey(fn)]
}

func fnKey(fn *ssa.Function) string {
	s := fn.String()
	// strip generic instantiation args for intrinsic lookup: pkg.F[T] -> pkg.F
	if o := fn.Origin(); o != nil {
		s = o.String()
	}
	return s
}

func (p *Path) callValue(fv Value, args []Value, site ssa.Instruction) Value {
	f, ok := fv.(FuncV)
	if !ok {
		if _, isP := fv.(Poison); isP {
			p.unsupported("call of poisoned func value")
		}
		p.unsupported("call of %T", fv)
	}
	if f.Intr != "" {
		in := p.E.intrinsics[f.Intr]
		if in == nil {
			p.unsupported("no intrinsic %s", f.Intr)
		}
		all := append(append([]Value{}, f.Bound...), args...)
		return in(p, all, site)
	}
	if f.Fn == nil {
		p.goPanicAt(site, "call of nil func")
	}
	return p.callFn(f.Fn, args, f.Free, site)
}

func (p *Path) callFn(fn *ssa.Function, args []Value, free []Value, site ssa.Instruction) Value {
	if p.initMode && fn.Name() == "init" && fn.Pkg != nil && !p.E.isInitPkg(fn.Pkg) {
		// initialisers of imported packages are not executed (their globals are
		// either unused or poisoned on first use)
		return nil
	}
	key := fnKey(fn)
	if in, ok := p.E.lookupIntrinsic(fn, key); ok {
		p.noteStub(key)
		return in(p, args, site)
	}
	if !p.isTarget(fn) {
		if p.initMode {
			return Poison{Why: "init: call to " + key}
		}
		p.unsupported("call to %s (no body in scope and no intrinsic) at %s", key, p.posOf(site))
	}
	return p.exec(fn, args, free, site)
}

func (p *Path) exec(fn *ssa.Function, args []Value, free []Value, site ssa.Instruction) (ret Value) {
	p.depth++
	if p.depth > p.E.Cfg.MaxDepth {
		panic(stopPath{kind: "unwind", msg: "call depth bound exceeded in " + fn.String()})
	}
	defer func() { p.depth-- }()
	p.noteFn(fn)
	fr := &frame{fn: fn, locals: make(map[ssa.Value]Value, 32), visits: map[*ssa.BasicBlock]int{}}
	for i, prm := range fn.Params {
		if i < len(args) {
			fr.locals[prm] = args[i]
		}
	}
	for i, fv := range fn.FreeVars {
		if i < len(free) {
			fr.locals[fv] = free[i]
		}
	}
	// Go panics unwind through deferred calls; we do not model recover(), so
	// deferred functions are only run on normal return (RunDefers).
	block := fn.Blocks[0]
	var prev *ssa.BasicBlock
	for {
		fr.visits[block]++
		if fr.visits[block] > p.E.Cfg.Unwind {
			panic(stopPath{kind: "unwind", msg: fmt.Sprintf("unwinding bound %d exceeded in %s block %d", p.E.Cfg.Unwind, fn, block.Index)})
		}
		var next *ssa.BasicBlock
		for _, ins := range block.Instrs {
			p.steps++
			if p.steps > p.E.Cfg.MaxSteps {
				panic(stopPath{kind: "unwind", msg: "step bound exceeded"})
			}
			switch in := ins.(type) {
			case *ssa.Phi:
				for k, pred := range block.Preds {
					if pred == prev {
						fr.locals[in] = p.get(fr, in.Edges[k])
						break
					}
				}
			case *ssa.If:
				c := p.get(fr, in.Cond).(BoolV)
				if p.branch(c.T) {
					next = block.Succs[0]
				} else {
					next = block.Succs[1]
				}
			case *ssa.Jump:
				next = block.Succs[0]
			case *ssa.Return:
				switch len(in.Results) {
				case 0:
					return nil
				case 1:
					v := p.get(fr, in.Results[0])
					p.checkReleased(v, in)
					return v
				}
				es := make([]Value, len(in.Results))
				for i, r := range in.Results {
					es[i] = p.get(fr, r)
					p.checkReleased(es[i], in)
				}
				return TupleV{E: es}
			case *ssa.Panic:
				v := p.get(fr, in.X)
				p.goPanicAt(in, "explicit panic: %s", p.panicText(v))
			default:
				p.curIns = ins
				p.step(fr, ins)
			}
		}
		if next == nil {
			p.unsupported("block without terminator in %s", fn)
		}
		prev, block = block, next
	}
}

func (p *Path) panicText(v Value) string {
	if iv, ok := v.(IfaceV); ok {
		if s, ok := iv.V.(StrV); ok {
			return s.String()
		}
		if e, ok := iv.V.(ErrV); ok {
			return e.Msg.String()
		}
		return describe(iv.V)
	}
	return describe(v)
}

func (p *Path) get(fr *frame, v ssa.Value) Value {
	switch x := v.(type) {
	case *ssa.Const:
		return p.constVal(x)
	case *ssa.Function:
		return FuncV{Fn: x}
	case *ssa.Global:
		return PtrV{Obj: p.global(x), Type: x.Type()}
	case *ssa.Builtin:
		return FuncV{Intr: "builtin." + x.Name()}
	}
	r, ok := fr.locals[v]
	if !ok {
		p.unsupported("internal: no value for %s (%T) in %s", v.Name(), v, fr.fn)
	}
	return r
}

func (p *Path) constVal(c *ssa.Const) Value {
	t := c.Type()
	if c.Value == nil {
		return p.zero(t)
	}
	switch u := t.Underlying().(type) {
	case *types.Basic:
		switch {
		case u.Info()&types.IsBoolean != 0:
			return mkBool(constant.BoolVal(c.Value))
		case u.Info()&types.IsInteger != 0:
			iv := constant.ToInt(c.Value)
			if i, ok := constant.Int64Val(iv); ok {
				return mkInt(i)
			}
			bi, _ := new(big.Int).SetString(iv.ExactString(), 10)
			return IntV{T: smt.BigInt(bi)}
		case u.Info()&types.IsString != 0:
			return constStr(constant.StringVal(c.Value))
		case u.Info()&types.IsFloat != 0:
			f, _ := constant.Float64Val(c.Value)
			return FloatV{Conc: true, F: f}
		}
	}
	p.unsupported("const of type %s", t)
	return nil
}

func (p *Path) global(g *ssa.Global) *Object {
	if o, ok := p.globals[g]; ok {
		return o
	}
	// foreign or not-yet-initialised global
	elem := g.Type().(*types.Pointer).Elem()
	var v Value
	if g.Pkg != nil && !p.E.isTargetPath(g.Pkg.Pkg.Path()) {
		v = p.foreignGlobal(g)
	} else {
		v = p.zero(elem)
	}
	o := p.newObj(elem, v)
	o.Pre = true
	o.Name = g.String()
	p.globals[g] = o
	return o
}

func (p *Path) foreignGlobal(g *ssa.Global) Value {
	name := g.String()
	switch name {
	case "io.EOF", "io.ErrUnexpectedEOF", "net/http.ErrBodyNotAllowed", "context.Canceled", "os.ErrNotExist", "io/fs.ErrNotExist":
		return p.sentinelErr(name)
	case "net/http.NoBody":
		return p.mkReader(StrV{}).V
	case "os.Stderr", "os.Stdout":
		return PtrV{Obj: p.newObj(nil, StructV{}), Type: g.Type().(*types.Pointer).Elem()}
	}
	return Poison{Why: "foreign global " + name}
}

func (p *Path) sentinelErr(name string) Value {
	if v, ok := p.sentinels[name]; ok {
		return v
	}
	p.nerr++
	v := IfaceV{T: errType(), V: ErrV{Msg: constStr(name), ID: p.nerr}}
	p.sentinels[name] = v
	return v
}

// ---------------------------------------------------------------- instructions

func (p *Path) step(fr *frame, ins ssa.Instruction) {
	switch in := ins.(type) {
	case *ssa.Alloc:
		elem := in.Type().(*types.Pointer).Elem()
		o := p.newObj(elem, p.zero(elem))
		fr.locals[in] = PtrV{Obj: o, Type: in.Type()}
	case *ssa.BinOp:
		fr.locals[in] = p.binop(in.Op, p.get(fr, in.X), p.get(fr, in.Y), in.X.Type(), in)
	case *ssa.UnOp:
		x := p.get(fr, in.X)
		switch in.Op {
		case token.MUL:
			fr.locals[in] = p.load(x, in)
		case token.NOT:
			fr.locals[in] = BoolV{T: smt.Not(x.(BoolV).T)}
		case token.SUB:
			switch xv := x.(type) {
			case IntV:
				fr.locals[in] = p.wrapInt(IntV{T: smt.Neg(xv.T), Small: xv.Small}, in.Type())
			case FloatV:
				if xv.Conc {
					fr.locals[in] = FloatV{Conc: true, F: -xv.F}
				} else {
					p.unsupported("neg of symbolic float")
				}
			default:
				p.unsupported("neg of %T", x)
			}
		default:
			p.unsupported("unop %s", in.Op)
		}
	case *ssa.Call:
		fr.locals[in] = p.doCall(fr, &in.Call, in)
	case *ssa.ChangeType:
		fr.locals[in] = p.get(fr, in.X)
	case *ssa.ChangeInterface:
		fr.locals[in] = p.get(fr, in.X)
	case *ssa.Convert:
		fr.locals[in] = p.convert(p.get(fr, in.X), in.X.Type(), in.Type(), in)
	case *ssa.MultiConvert:
		fr.locals[in] = p.convert(p.get(fr, in.X), in.X.Type(), in.Type(), in)
	case *ssa.Extract:
		t := p.get(fr, in.Tuple)
		tv, ok := t.(TupleV)
		if !ok {
			if _, isP := t.(Poison); isP {
				fr.locals[in] = t
				return
			}
			p.unsupported("extract from %T at %s", t, p.posOf(in))
		}
		fr.locals[in] = tv.E[in.Index]
	case *ssa.Field:
		x := p.get(fr, in.X)
		sv, ok := x.(StructV)
		if !ok {
			p.unsupported("field of %T", x)
		}
		fr.locals[in] = sv.F[in.Field]
	case *ssa.FieldAddr:
		x := p.get(fr, in.X)
		pv, ok := x.(PtrV)
		if !ok {
			p.unsupported("fieldaddr of %T at %s", x, p.posOf(in))
		}
		if pv.Obj == nil {
			p.goPanicAt(in, "nil pointer dereference (field %d)", in.Field)
		}
		np := make([]int, len(pv.Path)+1)
		copy(np, pv.Path)
		np[len(pv.Path)] = in.Field
		fr.locals[in] = PtrV{Obj: pv.Obj, Path: np, Type: in.Type()}
	case *ssa.Index:
		x := p.get(fr, in.X)
		idx := p.get(fr, in.Index).(IntV)
		switch xv := x.(type) {
		case ArrayV:
			i := p.concretizeIndex(idx.T, len(xv.E), in)
			fr.locals[in] = xv.E[i]
		case StrV:
			p.boundsCheck(idx.T, xv.LenTerm(), in)
			fr.locals[in] = IntV{T: p.byteAt(xv, idx.T), Small: true}
		default:
			p.unsupported("index of %T", x)
		}
	case *ssa.IndexAddr:
		x := p.get(fr, in.X)
		idx := p.get(fr, in.Index).(IntV)
		switch xv := x.(type) {
		case SliceV:
			i := p.concretizeIndex(idx.T, xv.Len, in)
			fr.locals[in] = PtrV{Obj: xv.Arr, Path: []int{xv.Off + i}, Type: in.Type()}
		case BytesV:
			p.boundsCheck(idx.T, xv.S.LenTerm(), in)
			fr.locals[in] = RopePtr{S: xv.S, Idx: idx.T}
		case PtrV: // *array
			if xv.Obj == nil {
				p.goPanicAt(in, "nil pointer dereference (index)")
			}
			arr := getPath(xv.Obj.Val, xv.Path, p).(ArrayV)
			i := p.concretizeIndex(idx.T, len(arr.E), in)
			np := append(append([]int{}, xv.Path...), i)
			fr.locals[in] = PtrV{Obj: xv.Obj, Path: np, Type: in.Type()}
		default:
			p.unsupported("indexaddr of %T at %s", x, p.posOf(in))
		}
	case *ssa.Lookup:
		x := p.get(fr, in.X)
		k := p.get(fr, in.Index)
		switch xv := x.(type) {
		case StrV:
			idx := k.(IntV)
			p.boundsCheck(idx.T, xv.LenTerm(), in)
			fr.locals[in] = IntV{T: p.byteAt(xv, idx.T), Small: true}
		case MapV:
			v, ok := p.mapLookup(xv, k)
			if !ok {
				v = p.zero(in.X.Type().Underlying().(*types.Map).Elem())
			}
			if in.CommaOk {
				fr.locals[in] = TupleV{E: []Value{v, mkBool(ok)}}
			} else {
				fr.locals[in] = v
			}
		default:
			p.unsupported("lookup in %T at %s", x, p.posOf(in))
		}
	case *ssa.MakeClosure:
		fn := in.Fn.(*ssa.Function)
		free := make([]Value, len(in.Bindings))
		for i, b := range in.Bindings {
			free[i] = p.get(fr, b)
		}
		fr.locals[in] = FuncV{Fn: fn, Free: free}
	case *ssa.MakeInterface:
		v := p.get(fr, in.X)
		fr.locals[in] = IfaceV{T: in.X.Type(), V: v}
	case *ssa.MakeMap:
		p.nobj++
		fr.locals[in] = MapV{M: &MapObj{ID: p.nobj, Pre: p.initMode || (!p.entered && !p.E.Cfg.SharedExplicit)}}
	case *ssa.MakeSlice:
		ln := p.concretize(p.get(fr, in.Len).(IntV).T, "make len", in)
		cp := p.concretize(p.get(fr, in.Cap).(IntV).T, "make cap", in)
		elem := in.Type().Underlying().(*types.Slice).Elem()
		es := make([]Value, cp)
		for i := range es {
			es[i] = p.zero(elem)
		}
		o := p.newObj(nil, ArrayV{E: es})
		fr.locals[in] = SliceV{Arr: o, Off: 0, Len: ln, Cap: cp}
	case *ssa.MapUpdate:
		m := p.get(fr, in.Map).(MapV)
		if m.M == nil {
			p.goPanicAt(in, "assignment to entry in nil map")
		}
		p.noteMapWrite(m.M, in)
		p.mapStore(m, p.get(fr, in.Key), p.get(fr, in.Value))
	case *ssa.Range:
		fr.locals[in] = p.mkRange(p.get(fr, in.X), in)
	case *ssa.Next:
		it := p.get(fr, in.Iter).(*RangeIter)
		fr.locals[in] = p.rangeNext(it, in)
	case *ssa.Slice:
		fr.locals[in] = p.sliceOp(fr, in)
	case *ssa.Store:
		p.store(p.get(fr, in.Addr), p.get(fr, in.Val), in)
	case *ssa.TypeAssert:
		fr.locals[in] = p.typeAssert(p.get(fr, in.X), in)
	case *ssa.Defer:
		call := in.Call
		fnv, args := p.prepareCall(fr, &call, in)
		fr.defers = append(fr.defers, func() { p.invoke(fnv, args, &call, in) })
	case *ssa.RunDefers:
		for i := len(fr.defers) - 1; i >= 0; i-- {
			fr.defers[i]()
		}
		fr.defers = nil
	case *ssa.DebugRef:
	case *ssa.Go, *ssa.Select, *ssa.Send, *ssa.MakeChan:
		p.unsupported("concurrency instruction %T at %s", ins, p.posOf(ins))
	case *ssa.SliceToArrayPointer:
		p.unsupported("SliceToArrayPointer")
	default:
		p.unsupported("instruction %T at %s", ins, p.posOf(ins))
	}
}

type prepared struct {
	fn     Value         // FuncV for call mode
	method *types.Func   // invoke mode
	recv   Value
}

func (p *Path) prepareCall(fr *frame, c *ssa.CallCommon, site ssa.Instruction) (prepared, []Value) {
	args := make([]Value, len(c.Args))
	for i, a := range c.Args {
		args[i] = p.get(fr, a)
	}
	if c.IsInvoke() {
		return prepared{method: c.Method, recv: p.get(fr, c.Value)}, args
	}
	return prepared{fn: p.get(fr, c.Value)}, args
}

func (p *Path) invoke(pr prepared, args []Value, c *ssa.CallCommon, site ssa.Instruction) Value {
	if pr.method != nil {
		return p.invokeMethod(pr.recv, pr.method, args, site)
	}
	return p.callValue(pr.fn, args, site)
}

func (p *Path) doCall(fr *frame, c *ssa.CallCommon, site ssa.Instruction) Value {
	pr, args := p.prepareCall(fr, c, site)
	return p.invoke(pr, args, c, site)
}

func (p *Path) invokeMethod(recv Value, m *types.Func, args []Value, site ssa.Instruction) Value {
	iv, ok := recv.(IfaceV)
	if !ok {
		if _, isP := recv.(Poison); isP {
			p.unsupported("invoke on poisoned value")
		}
		p.unsupported("invoke on %T", recv)
	}
	if iv.T == nil {
		p.goPanicAt(site, "nil interface method call (%s)", m.Name())
	}
	// engine-native payloads
	switch pv := iv.V.(type) {
	case ErrV:
		switch m.Name() {
		case "Error":
			return pv.Msg
		case "Unwrap":
			if pv.Wrapped == nil {
				return IfaceV{}
			}
			return pv.Wrapped
		}
	case *CtxV:
		return p.ctxMethod(pv, m.Name(), args, site)
	case *NativeObj:
		return pv.Call(p, m.Name(), args, site)
	}
	fn := p.lookupMethod(iv.T, m.Pkg(), m.Name())
	if fn == nil {
		p.unsupported("no method %s on %s", m.Name(), iv.T)
	}
	all := append([]Value{iv.V}, args...)
	return p.callFn(fn, all, nil, site)
}

// ---------------------------------------------------------------- type assert

func (p *Path) implements(iv IfaceV, it *types.Interface) bool {
	switch iv.V.(type) {
	case ErrV:
		for i := 0; i < it.NumMethods(); i++ {
			n := it.Method(i).Name()
			if n != "Error" && n != "Unwrap" {
				return false
			}
		}
		return true
	case *CtxV:
		return it.NumMethods() == 0 || types.Implements(ctxIfaceType(p), it)
	}
	return types.Implements(iv.T, it)
}

func (p *Path) typeAssert(x Value, in *ssa.TypeAssert) Value {
	iv, ok := x.(IfaceV)
	if !ok {
		p.unsupported("typeassert on %T", x)
	}
	var okv bool
	var res Value
	if it, isI := in.AssertedType.Underlying().(*types.Interface); isI {
		if iv.T != nil && p.implements(iv, it) {
			okv = true
			res = iv
		} else {
			res = IfaceV{}
		}
	} else {
		if iv.T != nil && types.Identical(iv.T, in.AssertedType) {
			okv = true
			res = iv.V
		} else {
			res = p.zero(in.AssertedType)
		}
	}
	if in.CommaOk {
		return TupleV{E: []Value{res, mkBool(okv)}}
	}
	if !okv {
		p.goPanicAt(in, "interface conversion: type assertion to %s failed", in.AssertedType)
	}
	return res
}

// ---------------------------------------------------------------- slicing

func (p *Path) sliceOp(fr *frame, in *ssa.Slice) Value {
	x := p.get(fr, in.X)
	var lo, hi *smt.Term
	if in.Low != nil {
		lo = p.get(fr, in.Low).(IntV).T
	}
	if in.High != nil {
		hi = p.get(fr, in.High).(IntV).T
	}
	if in.Max != nil {
		p.unsupported("3-index slice")
	}
	switch xv := x.(type) {
	case StrV:
		return p.strSlice(xv, lo, hi, in)
	case BytesV:
		return BytesV{S: p.strSlice(xv.S, lo, hi, in)}
	case SliceV:
		l, h := 0, xv.Len
		if lo != nil {
			l = p.concretize(lo, "slice low", in)
		}
		if hi != nil {
			h = p.concretize(hi, "slice high", in)
		}
		if l < 0 || h < l || h > xv.Cap {
			p.goPanicAt(in, "slice bounds out of range [%d:%d] with capacity %d", l, h, xv.Cap)
		}
		if xv.Arr == nil {
			return SliceV{}
		}
		return SliceV{Arr: xv.Arr, Off: xv.Off + l, Len: h - l, Cap: xv.Cap - l}
	case PtrV: // *array
		if xv.Obj == nil {
			p.goPanicAt(in, "nil pointer dereference (slice of *array)")
		}
		arr := getPath(xv.Obj.Val, xv.Path, p).(ArrayV)
		if len(xv.Path) != 0 {
			p.unsupported("slice of nested array")
		}
		l, h := 0, len(arr.E)
		if lo != nil {
			l = p.concretize(lo, "slice low", in)
		}
		if hi != nil {
			h = p.concretize(hi, "slice high", in)
		}
		if l < 0 || h < l || h > len(arr.E) {
			p.goPanicAt(in, "slice bounds out of range [%d:%d] with length %d", l, h, len(arr.E))
		}
		return SliceV{Arr: xv.Obj, Off: l, Len: h - l, Cap: len(arr.E) - l}
	}
	p.unsupported("slice of %T", x)
	return nil
}

// boundsCheck: obligation 0 <= idx < n. A feasible violation is a Go panic.
func (p *Path) boundsCheck(idx, n *smt.Term, site ssa.Instruction) {
	ok := smt.And(smt.Ge(idx, smt.Int(0)), smt.Lt(idx, n))
	p.obligation(ok, site, "index out of range")
}

// obligation: if ¬ok is feasible on this path, report a panic there; continue under ok.
func (p *Path) obligation(ok *smt.Term, site ssa.Instruction, what string) {
	if ok.IsTrue() {
		return
	}
	if ok.IsFalse() {
		p.goPanicAt(site, "%s", what)
	}
	if p.branch(ok) {
		return
	}
	p.goPanicAt(site, "%s", what)
}

func (p *Path) concretizeIndex(idx *smt.Term, n int, site ssa.Instruction) int {
	if c, ok := idx.Int64(); ok {
		if c < 0 || int(c) >= n {
			p.goPanicAt(site, "index out of range [%d] with length %d", c, n)
		}
		return int(c)
	}
	// symbolic index over a concrete-length container: case split
	p.boundsCheck(idx, smt.Int(int64(n)), site)
	for i := 0; i < n-1; i++ {
		if p.branch(smt.Eq(idx, smt.Int(int64(i)))) {
			return i
		}
	}
	return n - 1
}

// concretize forks over the feasible values of a small integer term.
func (p *Path) concretize(t *smt.Term, what string, site ssa.Instruction) int {
	if c, ok := t.Int64(); ok {
		return int(c)
	}
	lim := p.E.Cfg.ConcretizeMax
	for i := 0; i <= lim; i++ {
		if p.branch(smt.Eq(t, smt.Int(int64(i)))) {
			return i
		}
	}
	// negative or larger values
	if p.branch(smt.Lt(t, smt.Int(0))) {
		p.goPanicAt(site, "%s: negative value", what)
	}
	panic(stopPath{kind: "unwind", msg: fmt.Sprintf("%s: symbolic value exceeds concretization bound %d at %s", what, lim, p.posOf(site))})
}

// lookupMethod is a non-panicking Program.LookupMethod.
func (p *Path) lookupMethod(T types.Type, pkg *types.Package, name string) *ssa.Function {
	if T == nil || types.IsInterface(T) {
		return nil
	}
	sel := p.E.Prog.MethodSets.MethodSet(T).Lookup(pkg, name)
	if sel == nil {
		return nil
	}
	return p.E.Prog.MethodValue(sel)
}

func (e *Engine) isTargetPath(path string) bool {
	if e.TargetPaths[path] {
		return true
	}
	for _, pre := range e.TargetPrefixes {
		if strings.HasPrefix(path, pre) {
			return true
		}
	}
	return false
}

func (e *Engine) isInitPkg(pkg *ssa.Package) bool {
	for _, ip := range e.InitPkgs {
		if ip == pkg {
			return true
		}
	}
	// goag's own packages are initialised (their package-level values are plain)
	return strings.HasPrefix(pkg.Pkg.Path(), "github.com/vkd/goag") || strings.HasPrefix(pkg.Pkg.Path(), "vscratch/")
}

// isTimeLike: time.Time or a named type defined as time.Time.
func (e *Engine) isTimeLike(t types.Type) bool {
	if isOpaqueType(t) {
		return true
	}
	tt := e.namedType("time", "Time")
	if tt == nil {
		return false
	}
	if _, ok := t.Underlying().(*types.Struct); !ok {
		return false
	}
	return types.Identical(t.Underlying(), tt.Underlying())
}
