package sym

import (
	"fmt"
	"go/types"

	"gosym/smt"

	"golang.org/x/tools/go/ssa"
)

// vrt.Arbitrary(ptr, name): fill *ptr with an arbitrary value of its type. Every
// scalar leaf is a named solver variable; collection lengths, nil-ness and
// pointer nil-ness are case-split. The naming scheme (name.Field, name.len,
// name.0, name.nil, name.k0/name.v0) is shared with the native implementation
// (reflect-based) so that models replay.

const arbMaxColl = 2

// collChoices: nil / empty / 1 / 2 entries at the top three levels of a value,
// nil / empty / 1 entry below (bounds stated in DESIGN 6).
func (p *Path) collChoices(depth int) int {
	if p.E.Cfg.ArbNarrow {
		// nil, empty, one item at the outer two levels; nil or empty below
		if depth <= 1 {
			return 3
		}
		return 2
	}
	lim := 1
	if p.E.Cfg.ArbWide {
		lim = 2
	}
	if depth <= lim {
		return arbMaxColl + 2
	}
	return 3
}
const arbStrMax = 6
const arbKeyMax = 4

func (p *Path) arbitrary(t types.Type, name string, depth int, site ssa.Instruction) Value {
	if depth > 6 {
		return p.zero(t)
	}
	tfn := typeFullName(t)
	if tfn != "time.Time" && p.E.isTimeLike(t) {
		tfn = "time.Time"
	}
	switch tfn {
	case "time.Time":
		tok := p.freshNamed("i_"+name, smt.SInt)
		p.inputs = append(p.inputs, &Input{Name: name, Kind: "int", T: tok})
		p.assert(smt.Not(smt.Eq(tok, smt.Int(0))))
		return p.timeVal(tok, nil)
	case "encoding/json.RawMessage":
		s := p.E.intrinsics["vrt.JSONAny"](p, []Value{constStr(name)}, site).(StrV)
		return BytesV{S: s}
	}
	switch u := t.Underlying().(type) {
	case *types.Basic:
		switch {
		case u.Info()&types.IsBoolean != 0:
			b := p.freshNamed("b_"+name, smt.SBool)
			p.inputs = append(p.inputs, &Input{Name: name, Kind: "bool", T: b})
			return BoolV{T: b}
		case u.Info()&types.IsInteger != 0:
			bits, signed, _ := intWidth(t)
			v := p.freshNamed("i_"+name, smt.SInt)
			lo, hi := smt.Int(0), smt.BigInt(pow2(bits))
			if signed {
				lo, hi = smt.Neg(smt.BigInt(pow2(bits-1))), smt.BigInt(pow2(bits-1))
			}
			p.assert(smt.And(smt.Ge(v, lo), smt.Lt(v, hi)))
			p.inputs = append(p.inputs, &Input{Name: name, Kind: "int", T: v})
			return IntV{T: v}
		case u.Info()&types.IsFloat != 0:
			v := p.freshNamed("i_"+name, smt.SInt)
			p.inputs = append(p.inputs, &Input{Name: name, Kind: "int", T: v})
			if u.Kind() == types.Float32 {
				return FloatV{Tok: v, Bits: 32}
			}
			return FloatV{Tok: v}
		case u.Info()&types.IsString != 0:
			s := p.freshStr("s_"+name, arbStrMax)
			// string VALUES are ASCII: a Go string may hold any bytes, but JSON text cannot
			// carry invalid UTF-8 (encoding/json substitutes U+FFFD), and multi-byte
			// sequences do not fit the byte bound; raw request text (vrt.String) is all bytes
			for i := 0; i < arbStrMax; i++ {
				p.assert(smt.Lt(smt.Select(s.A[0].Arr, smt.Int(int64(i))), smt.Int(128)))
			}
			s.A[0].Alpha = asciiAlpha()
			p.inputs = append(p.inputs, &Input{Name: name, Kind: "string", Arr: s.A[0].Arr, Len: s.A[0].Len, Max: arbStrMax})
			return s
		}
	case *types.Struct:
		if isOpaqueType(t) {
			return p.zero(t)
		}
		fs := make([]Value, u.NumFields())
		if u.NumFields() == 2 && u.Field(0).Name() == "IsSet" && u.Field(1).Name() == "Value" {
			// Maybe[T] / Nullable[T]: the value of an unset wrapper is the zero value
			b := p.freshNamed("b_"+name+".IsSet", smt.SBool)
			p.inputs = append(p.inputs, &Input{Name: name + ".IsSet", Kind: "bool", T: b})
			if p.branch(b) {
				return StructV{F: []Value{mkBool(true), p.arbitrary(u.Field(1).Type(), name+".Value", depth+1, site)}}
			}
			return StructV{F: []Value{mkBool(false), p.zero(u.Field(1).Type())}}
		}
		for i := range fs {
			f := u.Field(i)
			if !f.Exported() && !f.Embedded() {
				fs[i] = p.zero(f.Type())
				continue
			}
			fs[i] = p.arbitrary(f.Type(), name+"."+f.Name(), depth+1, site)
		}
		return StructV{F: fs}
	case *types.Pointer:
		isNil := p.namedChoose(name+".nil", 2)
		p.inputs = append(p.inputs, &Input{Name: name + ".nil", Kind: "choose", Conc: isNil})
		if isNil == 1 {
			return PtrV{Type: t}
		}
		o := p.newObj(u.Elem(), p.arbitrary(u.Elem(), name+".elem", depth+1, site))
		return PtrV{Obj: o, Type: t}
	case *types.Slice:
		// nil, or length 0..arbMaxColl
		c := p.namedChoose(name+".len", p.collChoices(depth))
		p.inputs = append(p.inputs, &Input{Name: name + ".len", Kind: "choose", Conc: c})
		if c == 0 {
			return p.zero(t)
		}
		n := c - 1
		if eb, ok := u.Elem().Underlying().(*types.Basic); ok && eb.Kind() == types.Uint8 {
			s := p.freshStr("s_"+name, arbStrMax)
			p.inputs = append(p.inputs, &Input{Name: name, Kind: "string", Arr: s.A[0].Arr, Len: s.A[0].Len, Max: arbStrMax})
			return BytesV{S: s}
		}
		es := make([]Value, n)
		for i := range es {
			es[i] = p.arbitrary(u.Elem(), fmt.Sprintf("%s.%d", name, i), depth+1, site)
		}
		o := p.newObj(nil, ArrayV{E: es})
		return SliceV{Arr: o, Len: n, Cap: n}
	case *types.Map:
		c := p.namedChoose(name+".len", p.collChoices(depth))
		p.inputs = append(p.inputs, &Input{Name: name + ".len", Kind: "choose", Conc: c})
		if c == 0 {
			return MapV{}
		}
		p.nobj++
		m := &MapObj{ID: p.nobj}
		var keys []StrV
		for i := 0; i < c-1; i++ {
			kn := fmt.Sprintf("%s.k%d", name, i)
			k := p.freshStr("s_"+kn, arbKeyMax)
			for j := 0; j < arbKeyMax; j++ { // ASCII, as for string values
				p.assert(smt.Lt(smt.Select(k.A[0].Arr, smt.Int(int64(j))), smt.Int(128)))
			}
			k.A[0].Alpha = asciiAlpha()
			p.inputs = append(p.inputs, &Input{Name: kn, Kind: "string", Arr: k.A[0].Arr, Len: k.A[0].Len, Max: arbKeyMax})
			for _, o := range keys {
				p.assert(smt.Not(p.strEq(k, o)))
			}
			keys = append(keys, k)
			v := p.arbitrary(u.Elem(), fmt.Sprintf("%s.v%d", name, i), depth+1, site)
			m.Entries = append(m.Entries, &MapEntry{K: k, V: v})
		}
		return MapV{M: m}
	case *types.Interface:
		return IfaceV{}
	}
	p.unsupported("vrt.Arbitrary of %s", t)
	return nil
}

// deepEq: vrt.Equal — Go value equality with the conventions of DESIGN 11.4
// (times as instants, nil slice/map == empty).
func (p *Path) deepEq(a, b Value, t types.Type, site ssa.Instruction) *smt.Term {
	p.eqDepth++
	defer func() { p.eqDepth-- }()
	if p.eqDepth > 60 {
		// cyclic structures (self-referencing maps): identical pointers were
		// already handled; deeper than this is treated as equal by coinduction
		return smt.True
	}
	if t != nil {
		if ao, ok := a.(OpaqueV); ok {
			if bo, ok := b.(OpaqueV); ok {
				return smt.Eq(ao.Tok, bo.Tok)
			}
		}
		switch typeFullName(t) {
		case "time.Time":
			return smt.Eq(a.(OpaqueV).Tok, b.(OpaqueV).Tok)
		case "encoding/json.RawMessage":
			ja, _ := p.parseJSON(p.bytesAsStr(a), site)
			jb, _ := p.parseJSON(p.bytesAsStr(b), site)
			if ja == nil || jb == nil {
				return smt.Bool(ja == nil && jb == nil && isNilValue(a) == isNilValue(b))
			}
			return p.jvEq(ja, jb)
		}
	}
	switch x := a.(type) {
	case StructV:
		y := b.(StructV)
		var st *types.Struct
		if t != nil {
			st, _ = t.Underlying().(*types.Struct)
		}
		r := smt.True
		for i := range x.F {
			var ft types.Type
			if st != nil {
				ft = st.Field(i).Type()
			}
			r = smt.And(r, p.deepEq(x.F[i], y.F[i], ft, site))
		}
		return r
	case SliceV:
		switch y := b.(type) {
		case SliceV:
			if x.Len != y.Len {
				return smt.False
			}
			var et types.Type
			if t != nil {
				if sl, ok := t.Underlying().(*types.Slice); ok {
					et = sl.Elem()
				}
			}
			r := smt.True
			for i := 0; i < x.Len; i++ {
				r = smt.And(r, p.deepEq(getPath(x.Arr.Val, []int{x.Off + i}, p), getPath(y.Arr.Val, []int{y.Off + i}, p), et, site))
			}
			return r
		case BytesV:
			if x.Len == 0 {
				return smt.Eq(y.S.LenTerm(), smt.Int(0))
			}
			return p.strEq(p.sliceToStr(x), y.S)
		}
	case BytesV:
		return p.strEq(x.S, p.bytesAsStr(b))
	case MapV:
		y := b.(MapV)
		var xe, ye []*MapEntry
		if x.M != nil {
			xe = x.M.Entries
		}
		if y.M != nil {
			ye = y.M.Entries
		}
		if len(xe) != len(ye) {
			return smt.False
		}
		var et types.Type
		if t != nil {
			if mt, ok := t.Underlying().(*types.Map); ok {
				et = mt.Elem()
			}
		}
		r := smt.True
		used := make([]bool, len(ye))
		for _, e := range xe {
			found := false
			for j, f := range ye {
				if used[j] {
					continue
				}
				if p.branch(p.valEq(e.K, f.K)) {
					used[j] = true
					found = true
					r = smt.And(r, p.deepEq(e.V, f.V, et, site))
					break
				}
			}
			if !found {
				return smt.False
			}
		}
		return r
	case PtrV:
		y := b.(PtrV)
		if x.Obj == nil || y.Obj == nil {
			return smt.Bool(x.Obj == nil && y.Obj == nil)
		}
		if x.Obj == y.Obj {
			return smt.True
		}
		if p.eqIgnoreFuncs {
			// data graphs with cycles (self-referencing component maps): each pair once
			k := [2]*Object{x.Obj, y.Obj}
			if p.eqSeen[k] {
				return smt.True
			}
			p.eqSeen[k] = true
		}
		var et types.Type
		if t != nil {
			if pt, ok := t.Underlying().(*types.Pointer); ok {
				et = pt.Elem()
			}
		}
		return p.deepEq(p.load(x, site), p.load(y, site), et, site)
	case IfaceV:
		y := b.(IfaceV)
		if x.T == nil || y.T == nil {
			return smt.Bool(x.T == nil && y.T == nil)
		}
		if !types.Identical(x.T, y.T) {
			return smt.False
		}
		return p.deepEq(x.V, y.V, x.T, site)
	case FuncV:
		if p.eqIgnoreFuncs {
			return smt.True
		}
	case FloatV:
		y := b.(FloatV)
		if x.Conc && y.Conc {
			return smt.Bool(x.F == y.F)
		}
		return smt.Eq(p.floatTok(x), p.floatTok(y))
	}
	return p.valEq(a, b)
}

func init() {
	extraRegs = append(extraRegs, func(e *Engine) {
		I := e.intrinsics
		I["vrt.Arbitrary"] = func(p *Path, a []Value, site ssa.Instruction) Value {
			iv := a[0].(IfaceV)
			ptr, ok := iv.V.(PtrV)
			if !ok || ptr.Obj == nil {
				p.unsupported("vrt.Arbitrary needs a non-nil pointer")
			}
			name := p.constStrArg(a[1], "vrt.Arbitrary name")
			elem := iv.T.Underlying().(*types.Pointer).Elem()
			p.store(ptr, p.arbitrary(elem, name, 0, site), site)
			return nil
		}
		I["vrt.Same"] = func(p *Path, a []Value, site ssa.Instruction) Value {
			// structural equality of two values of possibly different (but like-shaped) types
			x, y := a[0].(IfaceV), a[1].(IfaceV)
			if x.T == nil || y.T == nil {
				return mkBool(x.T == nil && y.T == nil)
			}
			if !sameShape(x.V, y.V, 0) {
				p.unsupported("vrt.Same: the two values have different Go shapes (%s vs %s)", x.T, y.T)
			}
			return BoolV{T: p.deepEq(x.V, y.V, x.T, site)}
		}
		I["vrt.EqualData"] = func(p *Path, a []Value, site ssa.Instruction) Value {
			// equality of two data graphs: function values are skipped, shared/cyclic parts visited once
			x, y := a[0].(IfaceV), a[1].(IfaceV)
			if x.T == nil || y.T == nil {
				return mkBool(x.T == nil && y.T == nil)
			}
			if !types.Identical(x.T, y.T) {
				return mkBool(false)
			}
			p.eqIgnoreFuncs = true
			p.eqSeen = map[[2]*Object]bool{}
			defer func() { p.eqIgnoreFuncs = false }()
			return BoolV{T: p.deepEq(x.V, y.V, x.T, site)}
		}
		I["vrt.Equal"] = func(p *Path, a []Value, site ssa.Instruction) Value {
			x, y := a[0].(IfaceV), a[1].(IfaceV)
			if x.T == nil || y.T == nil {
				return mkBool(x.T == nil && y.T == nil)
			}
			if !types.Identical(x.T, y.T) {
				return mkBool(false)
			}
			return BoolV{T: p.deepEq(x.V, y.V, x.T, site)}
		}
	})
}

// sameShape: the two values are built alike (so that deepEq can walk them in step).
func sameShape(a, b Value, depth int) bool {
	if depth > 40 {
		return true
	}
	switch x := a.(type) {
	case StructV:
		y, ok := b.(StructV)
		if !ok || len(x.F) != len(y.F) {
			return false
		}
		for i := range x.F {
			if !sameShape(x.F[i], y.F[i], depth+1) {
				return false
			}
		}
		return true
	case IntV:
		_, ok := b.(IntV)
		return ok
	case BoolV:
		_, ok := b.(BoolV)
		return ok
	case FloatV:
		_, ok := b.(FloatV)
		return ok
	case StrV:
		_, ok := b.(StrV)
		return ok
	case OpaqueV:
		_, ok := b.(OpaqueV)
		return ok
	case SliceV:
		switch b.(type) {
		case SliceV, BytesV:
			return true
		}
		return false
	case BytesV:
		switch b.(type) {
		case SliceV, BytesV:
			return true
		}
		return false
	case MapV:
		_, ok := b.(MapV)
		return ok
	case PtrV:
		y, ok := b.(PtrV)
		if !ok {
			return false
		}
		if x.Obj == nil || y.Obj == nil {
			return true
		}
		return sameShape(x.Obj.Val, y.Obj.Val, depth+1)
	case IfaceV:
		y, ok := b.(IfaceV)
		if !ok {
			return false
		}
		if x.T == nil || y.T == nil {
			return true
		}
		return sameShape(x.V, y.V, depth+1)
	}
	return true
}

var asciiSet = func() *[256]bool {
	var a [256]bool
	for i := 0; i < 128; i++ {
		a[i] = true
	}
	return &a
}()

func asciiAlpha() *[256]bool { return asciiSet }
