package sym

import (
	"fmt"
	"go/types"
	"net/url"

	"gosym/smt"

	"golang.org/x/tools/go/ssa"
)

// Client-side transport stubs (C09/C10, DESIGN 2.4 class 3): the URL string the
// generated client assembles is turned back into the request the server sees by
// cancelling each escaping function against its inverse.

func init() {
	extraRegs = append(extraRegs, func(e *Engine) {
		I := e.intrinsics
		I["net/url.PathEscape"] = func(p *Path, a []Value, site ssa.Instruction) Value {
			s := a[0].(StrV)
			if s.IsConst() {
				return constStr(url.PathEscape(s.ConstString()))
			}
			return p.opaqueStr("PathEscape", []Value{s}, s.MaxLen()*3)
		}
		I["net/url.QueryEscape"] = func(p *Path, a []Value, site ssa.Instruction) Value {
			s := a[0].(StrV)
			if s.IsConst() {
				return constStr(url.QueryEscape(s.ConstString()))
			}
			return p.opaqueStr("QueryEscape", []Value{s}, s.MaxLen()*3)
		}
		I["(net/url.Values).Encode"] = func(p *Path, a []Value, site ssa.Instruction) Value {
			m := a[0].(MapV)
			s := p.opaqueStr("ValuesEncode", []Value{m}, 64)
			return s
		}
		I["(net/url.Values).Set"] = func(p *Path, a []Value, site ssa.Instruction) Value {
			m := a[0].(MapV)
			if m.M == nil {
				p.goPanicAt(site, "assignment to entry in nil map (Values.Set)")
			}
			p.mapStore(m, a[1], p.mkStrSlice([]StrV{a[2].(StrV)}))
			return nil
		}
		I["(net/url.Values).Add"] = func(p *Path, a []Value, site ssa.Instruction) Value {
			m := a[0].(MapV)
			if m.M == nil {
				p.goPanicAt(site, "assignment to entry in nil map (Values.Add)")
			}
			var vs []StrV
			if v, ok := p.mapLookup(m, a[1]); ok {
				vs = p.strList(v)
			}
			vs = append(append([]StrV{}, vs...), a[2].(StrV))
			p.mapStore(m, a[1], p.mkStrSlice(vs))
			return nil
		}
		newReq := func(p *Path, ctx Value, method Value, rawURL StrV, body Value, site ssa.Instruction) Value {
			reqT := p.E.namedType("net/http", "Request")
			urlT := p.E.namedType("net/url", "URL")
			if reqT == nil || urlT == nil {
				p.unsupported("net/http not loaded")
			}
			// split the assembled URL at the first '?' (a constant byte of the client code)
			var pathRope StrV
			var query Value
			seenQ := false
			for _, at := range rawURL.A {
				if seenQ {
					if at.Prov != nil && at.Prov.Fn == "ValuesEncode" {
						query = at.Prov.Args[0]
						continue
					}
					if at.Kind == AConst && len(at.B) == 0 {
						continue
					}
					p.unsupported("client URL: unrecognised query part %s", StrV{A: []Atom{at}})
				}
				switch {
				case at.Kind == AConst:
					bs := at.B
					for i, c := range bs {
						if c == '?' {
							pathRope = strConcat(pathRope, constStr(string(bs[:i])))
							if i+1 < len(bs) {
								p.unsupported("client URL: constant query text")
							}
							seenQ = true
							break
						}
					}
					if !seenQ {
						pathRope = strConcat(pathRope, StrV{A: []Atom{at}})
					}
				case at.Prov != nil && at.Prov.Fn == "PathEscape":
					// the server sees the unescaped segment (net/http decodes URL.Path)
					pathRope = strConcat(pathRope, at.Prov.Args[0].(StrV))
				case at.Prov != nil && at.Prov.Fn == "QueryEscape":
					// query escaping used in a path: net/http path-unescapes it, which undoes
					// %XX but not the '+' a blank was turned into - the server sees the
					// original text only if it holds no blank
					orig := at.Prov.Args[0].(StrV)
					seen := p.opaqueStr("PathUnescapeOfQueryEscape", []Value{orig}, orig.MaxLen())
					noBlank := smt.True
					for i := 0; i < orig.MaxLen(); i++ {
						ii := smt.Int(int64(i))
						noBlank = smt.And(noBlank, smt.Implies(smt.Lt(ii, orig.LenTerm()), smt.Not(smt.Eq(p.byteAt(orig, ii), smt.Int(' ')))))
					}
					p.assert(smt.Implies(noBlank, p.strEq(seen, orig)))
					p.assert(smt.Eq(seen.LenTerm(), orig.LenTerm()))
					pathRope = strConcat(pathRope, seen)
				default:
					// raw bytes spliced into a URL: only plain path bytes survive parsing unchanged
					p.unsupported("client URL: unescaped symbolic text in the path")
				}
			}
			uv := p.zero(urlT).(StructV)
			uv.F[fieldIndex(urlT, "Path")] = pathRope
			uo := p.newObj(urlT, uv)
			if query != nil {
				p.side[fmt.Sprintf("query:%d", uo.ID)] = query
			}
			rv := p.zero(reqT).(StructV)
			rv.F[fieldIndex(reqT, "Method")] = method
			rv.F[fieldIndex(reqT, "URL")] = PtrV{Obj: uo, Type: types.NewPointer(urlT)}
			p.nobj++
			rv.F[fieldIndex(reqT, "Header")] = MapV{M: &MapObj{ID: p.nobj}}
			if ctx != nil {
				rv.F[fieldIndex(reqT, "ctx")] = ctx
			}
			var b Value = p.mkReader(StrV{})
			if iv, ok := body.(IfaceV); ok && iv.T != nil {
				if n, ok := iv.V.(*NativeObj); ok {
					b = IfaceV{T: p.E.namedType("io", "ReadCloser"), V: n}
				} else {
					b = IfaceV{T: p.E.namedType("io", "ReadCloser"), V: iv.V}
					if _, isPtr := iv.V.(PtrV); !isPtr {
						p.unsupported("request body of type %s", iv.T)
					}
					b = iv
				}
			}
			rv.F[fieldIndex(reqT, "Body")] = b
			ro := p.newObj(reqT, rv)
			return TupleV{E: []Value{PtrV{Obj: ro, Type: types.NewPointer(reqT)}, IfaceV{}}}
		}
		I["net/http.NewRequestWithContext"] = func(p *Path, a []Value, site ssa.Instruction) Value {
			return newReq(p, a[0], a[1], a[2].(StrV), a[3], site)
		}
		I["net/http.NewRequest"] = func(p *Path, a []Value, site ssa.Instruction) Value {
			return newReq(p, nil, a[0], a[1].(StrV), a[2], site)
		}
	})
}
