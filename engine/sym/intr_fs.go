package sym

import (
	"fmt"
	"net/url"
	"path"
	"sort"

	"gosym/smt"

	"golang.org/x/tools/go/ssa"
)

// File-system model (C19, C01 layer 1): a finite map name -> (exists, content)
// per "directory instance"; os.* calls used by goag.go are interpreted over it.

type fsFile struct {
	Exists  *smt.Term
	Content StrV
}

// fsHandle: an open *os.File; Off is -1 for "at end of file", else a concrete offset.
type fsHandle struct {
	F   *fsFile
	Off int
}

type fsState struct {
	cur   int
	files map[int]map[string]*fsFile
}

func (p *Path) fs() *fsState {
	if v, ok := p.side["fs"]; ok {
		return v.(*fsState)
	}
	st := &fsState{files: map[int]map[string]*fsFile{0: {}}}
	p.side["fs"] = st
	return st
}

func (st *fsState) dir() map[string]*fsFile {
	if st.files[st.cur] == nil {
		st.files[st.cur] = map[string]*fsFile{}
	}
	return st.files[st.cur]
}

func (st *fsState) file(name string) *fsFile {
	name = path.Base(name)
	d := st.dir()
	if f, ok := d[name]; ok {
		return f
	}
	f := &fsFile{Exists: smt.False}
	d[name] = f
	return f
}

// EnableStubs switches on an optional, check-specific stub set.
func (e *Engine) EnableStubs(set string) {
	I := e.intrinsics
	switch set {
	case "genfs":
		// ---- harness vocabulary
		I["vrt.FSSelect"] = func(p *Path, a []Value, site ssa.Instruction) Value {
			p.fs().cur = p.constIntArg(a[0], "vrt.FSSelect")
			return nil
		}
		I["vrt.FSDir"] = func(p *Path, a []Value, site ssa.Instruction) Value { return constStr("out") }
		I["vrt.FSSet"] = func(p *Path, a []Value, site ssa.Instruction) Value {
			f := p.fs().file(p.constStrArg(a[0], "vrt.FSSet name"))
			f.Exists = a[1].(BoolV).T
			f.Content = a[2].(StrV)
			return nil
		}
		I["vrt.FSExists"] = func(p *Path, a []Value, site ssa.Instruction) Value {
			return BoolV{T: p.fs().file(p.constStrArg(a[0], "vrt.FSExists name")).Exists}
		}
		I["vrt.FSContent"] = func(p *Path, a []Value, site ssa.Instruction) Value {
			return p.fs().file(p.constStrArg(a[0], "vrt.FSContent name")).Content
		}
		// vrt.Blob: a long file content (longer than any rendered file of the model)
		I["vrt.Blob"] = func(p *Path, a []Value, site ssa.Instruction) Value {
			name := p.inputName(p.constStrArg(a[0], "vrt.Blob name"))
			arr := p.freshNamed("s_"+name+"_a", smt.SArr)
			ln := p.freshNamed("s_"+name+"_n", smt.SInt)
			p.assert(smt.And(smt.Ge(ln, smt.Int(1000)), smt.Le(ln, smt.Int(100000))))
			return StrV{A: []Atom{{Kind: AView, Arr: arr, Off: smt.Int(0), Len: ln, Max: 100000}}}
		}
		I["vrt.FSNames"] = func(p *Path, a []Value, site ssa.Instruction) Value {
			var ns []string
			for n := range p.fs().dir() {
				ns = append(ns, n)
			}
			sort.Strings(ns)
			var ss []StrV
			for _, n := range ns {
				ss = append(ss, constStr(n))
			}
			return p.mkStrSlice(ss)
		}
		// ---- os / path
		I["path.Join"] = func(p *Path, a []Value, site ssa.Instruction) Value {
			var parts []string
			for _, s := range p.strList(a[0]) {
				if !s.IsConst() {
					p.unsupported("path.Join of symbolic string")
				}
				parts = append(parts, s.ConstString())
			}
			return constStr(path.Join(parts...))
		}
		I["path.Dir"] = func(p *Path, a []Value, site ssa.Instruction) Value {
			return constStr(path.Dir(p.constStrArg(a[0], "path.Dir")))
		}
		I["path/filepath.Join"] = I["path.Join"]
		I["os.MkdirAll"] = func(p *Path, a []Value, site ssa.Instruction) Value { return IfaceV{} }
		I["os.OpenFile"] = func(p *Path, a []Value, site ssa.Instruction) Value {
			name := p.constStrArg(a[0], "os.OpenFile name")
			flags := p.constIntArg(a[1], "os.OpenFile flags")
			const oCreate, oTrunc = 0x40, 0x200
			f := p.fs().file(name)
			if flags&oCreate == 0 {
				if !p.branch(f.Exists) {
					return TupleV{E: []Value{PtrV{}, p.sentinelErr("os.ErrNotExist")}}
				}
			}
			if flags&oTrunc != 0 {
				f.Content = StrV{}
			} else if !f.Exists.IsTrue() {
				// created if missing (empty), kept otherwise
				if !p.branch(f.Exists) {
					f.Content = StrV{}
				}
			}
			f.Exists = smt.True
			o := p.newObj(p.E.namedType("os", "File"), StructV{})
			p.side[fmt.Sprintf("file:%d", o.ID)] = &fsHandle{F: f, Off: 0}
			return TupleV{E: []Value{PtrV{Obj: o, Type: nil}, IfaceV{}}}
		}
		handleOf := func(p *Path, v Value) *fsHandle {
			pv, ok := v.(PtrV)
			if !ok || pv.Obj == nil {
				p.unsupported("operation on nil *os.File")
			}
			h, ok := p.side[fmt.Sprintf("file:%d", pv.Obj.ID)].(*fsHandle)
			if !ok {
				p.unsupported("unknown *os.File")
			}
			return h
		}
		write := func(p *Path, h *fsHandle, s StrV, site ssa.Instruction) Value {
			f := h.F
			atEnd := h.Off < 0
			if !atEnd && h.Off == 0 {
				if c, ok := f.Content.LenTerm().Int64(); ok && c == 0 {
					atEnd = true
				}
			}
			switch {
			case atEnd:
				f.Content = strConcat(f.Content, s)
				h.Off = -1
			case h.Off == 0:
				// overwrite in place: the old tail beyond the new bytes survives
				if p.branch(smt.Lt(s.LenTerm(), f.Content.LenTerm())) {
					tail := p.subRope(f.Content, s.LenTerm(), f.Content.LenTerm(), site)
					f.Content = strConcat(s, tail)
					h.Off = -2 // in the middle: further writes are not modelled
				} else {
					f.Content = s
					h.Off = -1
				}
			default:
				p.unsupported("write at a file offset that is neither 0 nor the end")
			}
			return TupleV{E: []Value{IntV{T: s.LenTerm(), Small: true}, IfaceV{}}}
		}
		I["(*os.File).Write"] = func(p *Path, a []Value, site ssa.Instruction) Value {
			return write(p, handleOf(p, a[0]), p.bytesAsStr(a[1]), site)
		}
		I["(*os.File).WriteString"] = func(p *Path, a []Value, site ssa.Instruction) Value {
			return write(p, handleOf(p, a[0]), a[1].(StrV), site)
		}
		I["(*os.File).Close"] = func(p *Path, a []Value, site ssa.Instruction) Value {
			handleOf(p, a[0])
			return IfaceV{}
		}
		I["(*os.File).Seek"] = func(p *Path, a []Value, site ssa.Instruction) Value {
			h := handleOf(p, a[0])
			off := p.constIntArg(a[1], "Seek offset")
			wh := p.constIntArg(a[2], "Seek whence")
			switch {
			case off == 0 && wh == 0:
				h.Off = 0
				return TupleV{E: []Value{mkInt(0), IfaceV{}}}
			case off == 0 && wh == 2:
				h.Off = -1
				return TupleV{E: []Value{IntV{T: h.F.Content.LenTerm(), Small: true}, IfaceV{}}}
			}
			p.unsupported("Seek(%d,%d)", off, wh)
			return nil
		}
		I["(*os.File).Truncate"] = func(p *Path, a []Value, site ssa.Instruction) Value {
			h := handleOf(p, a[0])
			n := p.constIntArg(a[1], "Truncate size")
			if n != 0 {
				p.unsupported("Truncate(%d)", n)
			}
			h.F.Content = StrV{}
			return IfaceV{}
		}
		// reading a whole file through io.ReadAll(f) / os.ReadFile
		p0 := I["io.ReadAll"]
		I["io.ReadAll"] = func(p *Path, a []Value, site ssa.Instruction) Value {
			if iv, ok := a[0].(IfaceV); ok {
				if pv, ok := iv.V.(PtrV); ok && pv.Obj != nil {
					if h, ok := p.side[fmt.Sprintf("file:%d", pv.Obj.ID)].(*fsHandle); ok {
						if h.Off != 0 && h.Off != -1 {
							p.unsupported("read at a file offset that is neither 0 nor the end")
						}
						out := h.F.Content
						if h.Off == -1 {
							out = StrV{}
						}
						h.Off = -1
						return TupleV{E: []Value{BytesV{S: out}, IfaceV{}}}
					}
				}
			}
			return p0(p, a, site)
		}
		I["os.ReadFile"] = func(p *Path, a []Value, site ssa.Instruction) Value {
			f := p.fs().file(p.constStrArg(a[0], "os.ReadFile name"))
			if p.branch(f.Exists) {
				return TupleV{E: []Value{BytesV{S: f.Content}, IfaceV{}}}
			}
			return TupleV{E: []Value{BytesV{Nil: true}, p.sentinelErr("os.ErrNotExist")}}
		}
		I["os.WriteFile"] = func(p *Path, a []Value, site ssa.Instruction) Value {
			f := p.fs().file(p.constStrArg(a[0], "os.WriteFile name"))
			f.Exists = smt.True
			f.Content = p.bytesAsStr(a[1])
			return IfaceV{}
		}
		I["os.Remove"] = func(p *Path, a []Value, site ssa.Instruction) Value {
			f := p.fs().file(p.constStrArg(a[0], "os.Remove name"))
			if p.branch(f.Exists) {
				f.Exists = smt.False
				f.Content = StrV{}
				return IfaceV{}
			}
			return p.sentinelErr("os.ErrNotExist")
		}
		I["os.IsNotExist"] = func(p *Path, a []Value, site ssa.Instruction) Value {
			iv, _ := a[0].(IfaceV)
			if iv.T == nil {
				return mkBool(false)
			}
			ne := p.sentinelErr("os.ErrNotExist").(IfaceV)
			return BoolV{T: p.valEq(iv, ne)}
		}
		// ---- the generator's pipeline, as contract stubs
		I["github.com/vkd/goag/specification.ParseSwagger"] = func(p *Path, a []Value, site ssa.Instruction) Value {
			return TupleV{E: []Value{PtrV{Obj: p.newObj(nil, StructV{})}, IfaceV{}}}
		}
		I["github.com/vkd/goag/generator.NewGenerator"] = func(p *Path, a []Value, site ssa.Instruction) Value {
			t := p.E.namedType("github.com/vkd/goag/generator", "Generator")
			if t == nil {
				p.unsupported("generator.Generator type not loaded")
			}
			gv := p.zero(t).(StructV)
			if ct := p.E.namedType("github.com/vkd/goag/generator", "Components"); ct != nil {
				if i := fieldIndex(t, "Components"); i >= 0 {
					gv.F[i] = PtrV{Obj: p.newObj(ct, p.zero(ct))}
				}
			}
			return TupleV{E: []Value{PtrV{Obj: p.newObj(t, gv)}, IfaceV{}}}
		}
		I["(github.com/vkd/goag/generator.Components).LenToRender"] = func(p *Path, a []Value, site ssa.Instruction) Value {
			if v, ok := p.side["hasComponents"]; ok {
				return IntV{T: smt.Ite(v.(*smt.Term), smt.Int(1), smt.Int(0)), Small: true}
			}
			return mkInt(0)
		}
		// generator options are observed (base path)
		I["github.com/vkd/goag/generator.BasePath"] = func(p *Path, a []Value, site ssa.Instruction) Value {
			p.side["obs:basePath"] = a[0]
			return FuncV{Intr: "noop"}
		}
		I["noop"] = func(p *Path, a []Value, site ssa.Instruction) Value { return nil }
		for _, opt := range []string{"PackageName", "SkipDoNotEdit", "SpecFilename", "IfOption"} {
			I["github.com/vkd/goag/generator."+opt] = func(p *Path, a []Value, site ssa.Instruction) Value { return FuncV{Intr: "noop"} }
		}
		I["vrt.Observed"] = func(p *Path, a []Value, site ssa.Instruction) Value {
			v, ok := p.side["obs:"+p.constStrArg(a[0], "vrt.Observed")]
			if !ok {
				return StrV{}
			}
			return v
		}
		I["net/url.Parse"] = func(p *Path, a []Value, site ssa.Instruction) Value {
			raw := p.constStrArg(a[0], "url.Parse argument")
			u, err := url.Parse(raw)
			if err != nil {
				return TupleV{E: []Value{PtrV{}, p.mkErr(constStr(err.Error()), nil)}}
			}
			t := p.E.namedType("net/url", "URL")
			uv := p.zero(t).(StructV)
			uv.F[fieldIndex(t, "Path")] = constStr(u.Path)
			uv.F[fieldIndex(t, "Host")] = constStr(u.Host)
			uv.F[fieldIndex(t, "Scheme")] = constStr(u.Scheme)
			return TupleV{E: []Value{PtrV{Obj: p.newObj(t, uv)}, IfaceV{}}}
		}
		I["vrt.SetHasComponents"] = func(p *Path, a []Value, site ssa.Instruction) Value {
			p.side["hasComponents"] = a[0].(BoolV).T
			return nil
		}
		I["vrt.SetRenderFailure"] = func(p *Path, a []Value, site ssa.Instruction) Value {
			p.side["renderFailAt"] = p.constIntArg(a[0], "vrt.SetRenderFailure")
			p.side["renderCalls"] = 0
			return nil
		}
		I["(github.com/vkd/goag/generator.GoFile).Render"] = func(p *Path, a []Value, site ssa.Instruction) Value {
			if k, ok := p.side["renderFailAt"].(int); ok && k > 0 {
				n := p.side["renderCalls"].(int) + 1
				p.side["renderCalls"] = n
				if n == k {
					return TupleV{E: []Value{StrV{}, p.mkErr(constStr("render: not implemented"), nil)}}
				}
			}
			// the rendered text of a file is a function of the GoFile value
			// (object identities do not matter: two generators built from the same
			// inputs render the same text)
			return TupleV{E: []Value{p.opaqueStr("render", []Value{constStr(shapeOf(a[0]))}, 8), IfaceV{}}}
		}
		I["golang.org/x/tools/imports.Process"] = func(p *Path, a []Value, site ssa.Instruction) Value {
			src := p.bytesAsStr(a[1])
			// contract: (formatted, nil) iff the source parses, else (nil, err)
			p.declareFun("go_parses", []smt.Sort{smt.SArr, smt.SInt, smt.SInt}, smt.SBool)
			arr, off, ln := p.viewOf(src, site)
			ok := smt.App("go_parses", smt.SBool, arr, off, ln)
			if v, set := p.side["renderParses"]; set {
				p.assert(smt.Eq(ok, v.(*smt.Term)))
			}
			if p.branch(ok) {
				out := p.opaqueStr("gofmt", []Value{src}, 8)
				p.side["lastFormatted"] = out
				return TupleV{E: []Value{BytesV{S: out}, IfaceV{}}}
			}
			return TupleV{E: []Value{BytesV{Nil: true}, p.mkErr(constStr("imports.Process: source does not parse"), nil)}}
		}
		I["vrt.SetRenderParses"] = func(p *Path, a []Value, site ssa.Instruction) Value {
			p.side["renderParses"] = a[0].(BoolV).T
			return nil
		}
		I["vrt.IsFormatted"] = func(p *Path, a []Value, site ssa.Instruction) Value {
			s := a[0].(StrV)
			return mkBool(len(s.A) == 1 && s.A[0].Prov != nil && s.A[0].Prov.Fn == "gofmt")
		}
	}
}

// shapeOf describes a value up to object identity.
func shapeOf(v Value) string {
	switch x := v.(type) {
	case PtrV:
		if x.Obj == nil {
			return "nil"
		}
		if x.Obj.Type != nil {
			return "&" + x.Obj.Type.String()
		}
		return "&obj"
	case IfaceV:
		if x.T == nil {
			return "nil-iface"
		}
		return "iface(" + x.T.String() + "," + shapeOf(x.V) + ")"
	case StructV:
		s := "{"
		for _, f := range x.F {
			s += shapeOf(f) + ","
		}
		return s + "}"
	case SliceV:
		return fmt.Sprintf("slice[%d]", x.Len)
	case FuncV:
		if x.Fn != nil {
			return "func " + x.Fn.String()
		}
		return "func"
	case MapV:
		return "map"
	}
	return describe(v)
}
