package sym

import (
	"fmt"
	"go/types"
	"net/http"

	"gosym/smt"

	"golang.org/x/tools/go/ssa"
)

// CtxV is the engine's context.Context implementation (value chain only).
type CtxV struct {
	Parent   *CtxV
	Key, Val Value
	Canceled bool
}

// NativeObj is an engine-implemented object behind an interface value.
type NativeObj struct {
	Kind string
	Call func(p *Path, method string, args []Value, site ssa.Instruction) Value
	Data interface{}
}

func (e *Engine) namedType(pkg, name string) types.Type {
	sp := e.Prog.ImportedPackage(pkg)
	if sp == nil {
		return nil
	}
	if m := sp.Members[name]; m != nil {
		return m.Type()
	}
	return nil
}

func ctxIfaceType(p *Path) types.Type {
	t := p.E.namedType("context", "Context")
	if t == nil {
		p.unsupported("context package not loaded")
	}
	return t
}

func (p *Path) mkCtx(c *CtxV) IfaceV { return IfaceV{T: ctxIfaceType(p), V: c} }

func (p *Path) ctxMethod(c *CtxV, name string, args []Value, site ssa.Instruction) Value {
	switch name {
	case "Value":
		for cur := c; cur != nil; cur = cur.Parent {
			if cur.Key == nil {
				continue
			}
			if p.branch(p.valEq(cur.Key, args[0])) {
				return cur.Val
			}
		}
		return IfaceV{}
	case "Err":
		return IfaceV{}
	case "Done":
		return PtrV{}
	case "Deadline":
		return TupleV{E: []Value{p.zero(p.E.namedType("time", "Time")), mkBool(false)}}
	}
	p.unsupported("context method %s", name)
	return nil
}

func fieldIndex(t types.Type, name string) int {
	st, ok := t.Underlying().(*types.Struct)
	if !ok {
		return -1
	}
	for i := 0; i < st.NumFields(); i++ {
		if st.Field(i).Name() == name {
			return i
		}
	}
	return -1
}

func (p *Path) structField(ptr Value, t types.Type, name string, site ssa.Instruction) Value {
	sv := p.load(ptr, site).(StructV)
	i := fieldIndex(t, name)
	if i < 0 {
		p.unsupported("no field %s in %s", name, t)
	}
	return sv.F[i]
}

// invokeByName calls an exported method on an interface value.
func (p *Path) invokeByName(recv Value, name string, args []Value, site ssa.Instruction) Value {
	iv, ok := recv.(IfaceV)
	if !ok || iv.T == nil {
		p.goPanicAt(site, "nil interface method call (%s)", name)
	}
	if n, ok := iv.V.(*NativeObj); ok {
		return n.Call(p, name, args, site)
	}
	fn := p.lookupMethod(iv.T, nil, name)
	if fn == nil {
		p.unsupported("no method %s on %s", name, iv.T)
	}
	return p.callFn(fn, append([]Value{iv.V}, args...), nil, site)
}

func (p *Path) headerKey(v Value) StrV {
	s := v.(StrV)
	if s.IsConst() {
		return constStr(http.CanonicalHeaderKey(s.ConstString()))
	}
	p.unsupported("header key must be constant")
	return s
}

func (e *Engine) registerHTTP() {
	I := e.intrinsics
	I["context.Background"] = func(p *Path, a []Value, site ssa.Instruction) Value {
		if v, ok := p.side["ctx.bg"]; ok {
			return v.(IfaceV)
		}
		v := p.mkCtx(&CtxV{})
		p.side["ctx.bg"] = v
		return v
	}
	I["context.TODO"] = I["context.Background"]
	I["context.WithValue"] = func(p *Path, a []Value, site ssa.Instruction) Value {
		par, _ := a[0].(IfaceV)
		var pc *CtxV
		if par.T == nil {
			p.goPanicAt(site, "context.WithValue: nil parent")
		}
		pc, ok := par.V.(*CtxV)
		if !ok {
			p.unsupported("context.WithValue on foreign context %T", par.V)
		}
		return p.mkCtx(&CtxV{Parent: pc, Key: a[1], Val: a[2]})
	}
	reqT := func(p *Path) types.Type { return p.E.namedType("net/http", "Request") }
	I["(*net/http.Request).Context"] = func(p *Path, a []Value, site ssa.Instruction) Value {
		c := p.structField(a[0], reqT(p), "ctx", site).(IfaceV)
		if c.T == nil {
			return I["context.Background"](p, nil, site)
		}
		return c
	}
	I["(*net/http.Request).WithContext"] = func(p *Path, a []Value, site ssa.Instruction) Value {
		ctx := a[1].(IfaceV)
		if ctx.T == nil {
			p.goPanicAt(site, "nil context")
		}
		sv := p.load(a[0], site).(StructV)
		fs := append([]Value{}, sv.F...)
		fs[fieldIndex(reqT(p), "ctx")] = ctx
		o := p.newObj(reqT(p), StructV{F: fs})
		// the derived request keeps the query side-table of its URL (same *url.URL)
		return PtrV{Obj: o, Type: a[0].(PtrV).Type}
	}
	I["(*net/http.Request).Clone"] = I["(*net/http.Request).WithContext"]
	I["(*net/url.URL).Query"] = func(p *Path, a []Value, site ssa.Instruction) Value {
		u := a[0].(PtrV)
		if u.Obj == nil {
			p.goPanicAt(site, "nil URL")
		}
		q, ok := p.side[fmt.Sprintf("query:%d", u.Obj.ID)]
		if !ok {
			// no query installed by the harness: empty
			p.nobj++
			return MapV{M: &MapObj{ID: p.nobj}}
		}
		src := q.(MapV)
		p.nobj++
		m := &MapObj{ID: p.nobj}
		if src.M != nil {
			for _, en := range src.M.Entries {
				vs := p.strList(en.V)
				m.Entries = append(m.Entries, &MapEntry{K: en.K, V: p.mkStrSlice(vs)})
			}
		}
		return MapV{M: m}
	}
	I["(net/url.Values).Get"] = func(p *Path, a []Value, site ssa.Instruction) Value {
		v, ok := p.mapLookup(a[0].(MapV), a[1])
		if !ok {
			return StrV{}
		}
		vs := p.strList(v)
		if len(vs) == 0 {
			return StrV{}
		}
		return vs[0]
	}
	I["(net/http.Header).Values"] = func(p *Path, a []Value, site ssa.Instruction) Value {
		m := a[0].(MapV)
		v, ok := p.mapLookup(m, p.headerKey(a[1]))
		if !ok {
			return SliceV{}
		}
		return v
	}
	I["(net/http.Header).Get"] = func(p *Path, a []Value, site ssa.Instruction) Value {
		m := a[0].(MapV)
		v, ok := p.mapLookup(m, p.headerKey(a[1]))
		if !ok {
			return StrV{}
		}
		vs := p.strList(v)
		if len(vs) == 0 {
			return StrV{}
		}
		return vs[0]
	}
	I["(net/http.Header).Set"] = func(p *Path, a []Value, site ssa.Instruction) Value {
		m := a[0].(MapV)
		if m.M == nil {
			p.goPanicAt(site, "assignment to entry in nil map (Header.Set)")
		}
		p.noteMapWrite(m.M, site)
		p.mapStore(m, p.headerKey(a[1]), p.mkStrSlice([]StrV{a[2].(StrV)}))
		return nil
	}
	I["(net/http.Header).Add"] = func(p *Path, a []Value, site ssa.Instruction) Value {
		m := a[0].(MapV)
		if m.M == nil {
			p.goPanicAt(site, "assignment to entry in nil map (Header.Add)")
		}
		p.noteMapWrite(m.M, site)
		k := p.headerKey(a[1])
		var vs []StrV
		if v, ok := p.mapLookup(m, k); ok {
			vs = p.strList(v)
		}
		vs = append(append([]StrV{}, vs...), a[2].(StrV))
		p.mapStore(m, k, p.mkStrSlice(vs))
		return nil
	}
	I["(net/http.Header).Del"] = func(p *Path, a []Value, site ssa.Instruction) Value {
		m := a[0].(MapV)
		if m.M != nil {
			p.noteMapWrite(m.M, site)
		}
		p.mapDelete(m, p.headerKey(a[1]))
		return nil
	}
	I["(net/http.HandlerFunc).ServeHTTP"] = func(p *Path, a []Value, site ssa.Instruction) Value {
		return p.callValue(a[0], a[1:], site)
	}
	I["net/http.NotFound"] = func(p *Path, a []Value, site ssa.Instruction) Value {
		return p.httpError(a[0], constStr("404 page not found"), mkInt(404), site)
	}
	I["net/http.Error"] = func(p *Path, a []Value, site ssa.Instruction) Value {
		return p.httpError(a[0], a[1].(StrV), a[2].(IntV), site)
	}
	I["net/http.NotFoundHandler"] = func(p *Path, a []Value, site ssa.Instruction) Value {
		return IfaceV{T: p.E.namedType("net/http", "HandlerFunc"), V: FuncV{Intr: "net/http.NotFound"}}
	}
}

func (p *Path) httpError(w Value, msg StrV, code IntV, site ssa.Instruction) Value {
	h := p.invokeByName(w, "Header", nil, site)
	hm, ok := h.(MapV)
	if !ok {
		p.unsupported("ResponseWriter.Header() returned %T", h)
	}
	if hm.M == nil {
		p.goPanicAt(site, "assignment to entry in nil map (http.Error on nil Header)")
	}
	p.mapDelete(hm, constStr("Content-Length"))
	p.mapStore(hm, constStr("Content-Type"), p.mkStrSlice([]StrV{constStr("text/plain; charset=utf-8")}))
	p.mapStore(hm, constStr("X-Content-Type-Options"), p.mkStrSlice([]StrV{constStr("nosniff")}))
	p.invokeByName(w, "WriteHeader", []Value{code}, site)
	p.invokeByName(w, "Write", []Value{BytesV{S: strConcat(msg, constStr("\n"))}}, site)
	return nil
}

var _ = smt.True
