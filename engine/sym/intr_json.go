package sym

func (e *Engine) registerJSON() {}
