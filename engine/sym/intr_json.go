package sym

import (
	"fmt"
	"go/types"
	"strings"

	"gosym/smt"

	"golang.org/x/tools/go/ssa"
)

type readerState struct {
	S        StrV
	Consumed bool
}

func (p *Path) mkReader(s StrV) IfaceV {
	st := &readerState{S: s}
	var obj *NativeObj
	obj = &NativeObj{Kind: "reader", Data: st, Call: func(p *Path, m string, a []Value, site ssa.Instruction) Value {
		switch m {
		case "Close":
			return IfaceV{}
		case "Len":
			return IntV{T: st.S.LenTerm(), Small: true}
		}
		p.unsupported("reader method %s (only bulk reads are modelled)", m)
		return nil
	}}
	t := p.E.namedType("io", "ReadCloser")
	if t == nil {
		p.unsupported("io package not loaded")
	}
	return IfaceV{T: t, V: obj}
}

// readAll returns the remaining content of a reader value.
func (p *Path) readAll(r Value, site ssa.Instruction) StrV {
	iv, ok := r.(IfaceV)
	if !ok || iv.T == nil {
		p.goPanicAt(site, "read from nil reader")
	}
	switch x := iv.V.(type) {
	case *NativeObj:
		if st, ok := x.Data.(*readerState); ok {
			if st.Consumed {
				return StrV{}
			}
			st.Consumed = true
			return st.S
		}
	case PtrV:
		if n, ok := types.Unalias(derefType(iv.T)).(*types.Named); ok && strings.HasPrefix(n.Obj().Name(), "verifReader") {
			// harness streaming reader {s string; off int}: the rest of s
			sv := p.load(x, site).(StructV)
			content := sv.F[0].(StrV)
			off := sv.F[1].(IntV)
			if c, ok := off.T.Int64(); ok && c == 0 {
				p.store(x, StructV{F: []Value{content, IntV{T: content.LenTerm(), Small: true}}}, site)
				return content
			}
			return StrV{}
		}
		if typeFullName(derefType(iv.T)) == "bytes.Buffer" {
			sv := p.load(x, site).(StructV)
			s := p.bytesAsStr(sv.F[0])
			p.store(x, StructV{F: append([]Value{BytesV{S: StrV{}}}, sv.F[1:]...)}, site)
			return s
		}
	}
	p.unsupported("read from %s", iv.T)
	return StrV{}
}

func derefType(t types.Type) types.Type {
	if pt, ok := t.Underlying().(*types.Pointer); ok {
		return pt.Elem()
	}
	return t
}

func (e *Engine) registerJSON() {
	I := e.intrinsics
	I["encoding/json.Marshal"] = func(p *Path, a []Value, site ssa.Instruction) Value {
		j, errv := p.jsonEncode(a[0], nil, site)
		if errv != nil {
			return TupleV{E: []Value{BytesV{Nil: true}, errv}}
		}
		return TupleV{E: []Value{BytesV{S: p.jsonRope(j)}, IfaceV{}}}
	}
	I["encoding/json.Valid"] = func(p *Path, a []Value, site ssa.Instruction) Value {
		j, _ := p.parseJSON(p.bytesAsStr(a[0]), site)
		return mkBool(j != nil)
	}
	unmarshal := func(p *Path, data StrV, target Value, site ssa.Instruction) Value {
		j, why := p.parseJSON(data, site)
		if j == nil {
			return p.mkErr(constStr("invalid JSON: "+why), nil)
		}
		iv, ok := target.(IfaceV)
		if !ok || iv.T == nil {
			return p.mkErr(constStr("json: Unmarshal(nil)"), nil)
		}
		ptr, ok := iv.V.(PtrV)
		pt, isP := iv.T.Underlying().(*types.Pointer)
		if !ok || !isP || ptr.Obj == nil {
			return p.mkErr(constStr("json: Unmarshal(non-pointer)"), nil)
		}
		if errv := p.jsonDecode(j, ptr, pt.Elem(), site); errv != nil {
			return errv
		}
		return IfaceV{}
	}
	I["encoding/json.Unmarshal"] = func(p *Path, a []Value, site ssa.Instruction) Value {
		return unmarshal(p, p.bytesAsStr(a[0]), a[1], site)
	}
	I["encoding/json.NewEncoder"] = func(p *Path, a []Value, site ssa.Instruction) Value {
		t := p.E.namedType("encoding/json", "Encoder")
		o := p.newObj(t, StructV{})
		p.side[fmt.Sprintf("enc:%d", o.ID)] = a[0]
		return PtrV{Obj: o, Type: types.NewPointer(t)}
	}
	I["(*encoding/json.Encoder).Encode"] = func(p *Path, a []Value, site ssa.Instruction) Value {
		w := p.side[fmt.Sprintf("enc:%d", a[0].(PtrV).Obj.ID)]
		j, errv := p.jsonEncode(a[1], nil, site)
		if errv != nil {
			return errv
		}
		r := p.invokeByName(w, "Write", []Value{BytesV{S: strConcat(p.jsonRope(j), constStr("\n"))}}, site)
		if tv, ok := r.(TupleV); ok {
			if e, _ := tv.E[1].(IfaceV); e.T != nil {
				return e
			}
		}
		return IfaceV{}
	}
	nop := func(p *Path, a []Value, site ssa.Instruction) Value { return nil }
	I["(*encoding/json.Encoder).SetEscapeHTML"] = nop
	I["(*encoding/json.Encoder).SetIndent"] = nop
	I["(*encoding/json.Decoder).DisallowUnknownFields"] = nop
	I["(*encoding/json.Decoder).UseNumber"] = nop
	I["encoding/json.NewDecoder"] = func(p *Path, a []Value, site ssa.Instruction) Value {
		t := p.E.namedType("encoding/json", "Decoder")
		o := p.newObj(t, StructV{})
		p.side[fmt.Sprintf("dec:%d", o.ID)] = a[0]
		return PtrV{Obj: o, Type: types.NewPointer(t)}
	}
	I["(*encoding/json.Decoder).Decode"] = func(p *Path, a []Value, site ssa.Instruction) Value {
		r := p.side[fmt.Sprintf("dec:%d", a[0].(PtrV).Obj.ID)]
		data := p.readAll(r, site)
		if p.branch(smt.Eq(data.LenTerm(), smt.Int(0))) {
			return p.sentinelErr("io.EOF")
		}
		return unmarshal(p, data, a[1], site)
	}
	I["(encoding/json.RawMessage).MarshalJSON"] = func(p *Path, a []Value, site ssa.Instruction) Value {
		if isNilValue(a[0]) {
			return TupleV{E: []Value{BytesV{S: constStr("null")}, IfaceV{}}}
		}
		return TupleV{E: []Value{a[0], IfaceV{}}}
	}
	I["(*encoding/json.RawMessage).UnmarshalJSON"] = func(p *Path, a []Value, site ssa.Instruction) Value {
		p.store(a[0], BytesV{S: p.bytesAsStr(a[1])}, site)
		return IfaceV{}
	}

	// ---- readers / writers
	I["strings.NewReader"] = func(p *Path, a []Value, site ssa.Instruction) Value {
		return p.mkReader(a[0].(StrV)).V
	}
	I["bytes.NewReader"] = func(p *Path, a []Value, site ssa.Instruction) Value {
		return p.mkReader(p.bytesAsStr(a[0])).V
	}
	I["bytes.NewBufferString"] = func(p *Path, a []Value, site ssa.Instruction) Value {
		return p.mkReader(a[0].(StrV)).V
	}
	I["bytes.NewBuffer"] = func(p *Path, a []Value, site ssa.Instruction) Value {
		return p.mkReader(p.bytesAsStr(a[0])).V
	}
	I["io.NopCloser"] = func(p *Path, a []Value, site ssa.Instruction) Value {
		iv := a[0].(IfaceV)
		if n, ok := iv.V.(*NativeObj); ok {
			return IfaceV{T: p.E.namedType("io", "ReadCloser"), V: n}
		}
		p.unsupported("io.NopCloser of %s", iv.T)
		return nil
	}
	I["io.ReadAll"] = func(p *Path, a []Value, site ssa.Instruction) Value {
		return TupleV{E: []Value{BytesV{S: p.readAll(a[0], site)}, IfaceV{}}}
	}
	I["io/ioutil.ReadAll"] = I["io.ReadAll"]
	I["io.Copy"] = func(p *Path, a []Value, site ssa.Instruction) Value {
		data := p.readAll(a[1], site)
		r := p.invokeByName(a[0], "Write", []Value{BytesV{S: data}}, site)
		if tv, ok := r.(TupleV); ok {
			if e, _ := tv.E[1].(IfaceV); e.T != nil {
				return TupleV{E: []Value{mkInt(0), e}}
			}
		}
		return TupleV{E: []Value{IntV{T: data.LenTerm(), Small: true}, IfaceV{}}}
	}
	I["io.CopyBuffer"] = func(p *Path, a []Value, site ssa.Instruction) Value {
		// the scratch buffer is written (by src.Read) unless the copy is delegated
		// (WriterTo / ReaderFrom) or there is nothing to read
		delegated := true
		var arr *Object
		if sl, ok := a[2].(SliceV); ok && sl.Arr != nil {
			arr = sl.Arr
			delegated = false
			if iv, ok := a[1].(IfaceV); ok && iv.T != nil {
				if _, native := iv.V.(*NativeObj); native || p.lookupMethod(iv.T, nil, "WriteTo") != nil {
					delegated = true
				}
			}
			if iv, ok := a[0].(IfaceV); ok && iv.T != nil {
				if p.lookupMethod(iv.T, nil, "ReadFrom") != nil {
					delegated = true
				}
			}
		}
		data := p.readAll(a[1], site)
		if !delegated && p.branch(smt.Gt(data.LenTerm(), smt.Int(0))) {
			p.noteWrite(arr, site)
		}
		r := p.invokeByName(a[0], "Write", []Value{BytesV{S: data}}, site)
		if tv, ok := r.(TupleV); ok {
			if e, _ := tv.E[1].(IfaceV); e.T != nil {
				return TupleV{E: []Value{mkInt(0), e}}
			}
		}
		return TupleV{E: []Value{IntV{T: data.LenTerm(), Small: true}, IfaceV{}}}
	}
	I["(*sync.Pool).Get"] = func(p *Path, a []Value, site ssa.Instruction) Value {
		pv := a[0].(PtrV)
		sv := p.load(pv, site).(StructV)
		st := pv.Type.(*types.Pointer).Elem().Underlying().(*types.Struct)
		for i := 0; i < st.NumFields(); i++ {
			if st.Field(i).Name() == "New" {
				fv, ok := sv.F[i].(FuncV)
				if !ok {
					return IfaceV{}
				}
				// the object may as well be one another goroutine has put back: nothing may
				// use it after this request puts it back, and (maps) what a previous user may
				// have left in it - one hypothetical entry with an arbitrary key - must not be
				// read by this request if this request, in turn, puts the map back non-empty
				r := p.callValue(fv, nil, site)
				if iv, ok := r.(IfaceV); ok && iv.T != nil {
					// one designated Get per path receives the leftover (which one is a choice)
					if mv, ok := iv.V.(MapV); ok && mv.M != nil && p.side["poolLeftovers"] == true && !p.staleGiven && p.choose("pool-leftover-here", 2) == 1 {
						p.staleGiven = true
						if mt, ok := iv.T.Underlying().(*types.Map); ok {
							if kb, ok := mt.Key().Underlying().(*types.Basic); ok && kb.Kind() == types.String {
								p.nvar++
								key := p.freshStr(fmt.Sprintf("pool_stale_key_%d", p.nvar), 6)
								var val Value
								if typeFullName(mt.Elem()) == "encoding/json.RawMessage" {
									val = BytesV{S: constStr("\"stale\"")}
								} else {
									val = p.zero(mt.Elem())
								}
								mv.M.Entries = append(mv.M.Entries, &MapEntry{K: key, V: val, Stale: true})
								if p.pooledMaps == nil {
									p.pooledMaps = map[*MapObj]*pooledState{}
								}
								p.pooledMaps[mv.M] = &pooledState{pool: objName(pv.Obj)}
							}
						}
					}
				}
				return r
			}
		}
		p.unsupported("sync.Pool without New field")
		return nil
	}
	I["(*sync.Pool).Put"] = func(p *Path, a []Value, site ssa.Instruction) Value {
		if iv, ok := a[1].(IfaceV); ok {
			if mv, ok := iv.V.(MapV); ok && mv.M != nil {
				own := 0 // what THIS request leaves behind (the hypothetical leftover does not count)
				for _, e := range mv.M.Entries {
					if !e.Stale {
						own++
					}
				}
				if st := p.pooledMaps[mv.M]; st != nil && st.hit && own > 0 {
					p.writes = append(p.writes, fmt.Sprintf("pool-state: a map taken from %s is read without being cleared and put back non-empty at %s: entries of one request reach another", st.pool, p.posOf(site)))
				}
			}
			if pv, ok := iv.V.(PtrV); ok && pv.Obj != nil {
				if p.released == nil {
					p.released = map[*Object]bool{}
				}
				p.released[pv.Obj] = true
			}
		}
		return nil
	}
	I["io.WriteString"] = func(p *Path, a []Value, site ssa.Instruction) Value {
		return p.invokeByName(a[0], "Write", []Value{BytesV{S: a[1].(StrV)}}, site)
	}
	bufWrite := func(p *Path, ptr Value, s StrV, site ssa.Instruction) {
		sv := p.load(ptr, site).(StructV)
		cur := StrV{}
		if b, ok := sv.F[0].(BytesV); ok {
			cur = b.S
		}
		fs := append([]Value{BytesV{S: strConcat(cur, s)}}, sv.F[1:]...)
		p.store(ptr, StructV{F: fs}, site)
	}
	bufContent := func(p *Path, ptr Value, site ssa.Instruction) StrV {
		sv := p.load(ptr, site).(StructV)
		if b, ok := sv.F[0].(BytesV); ok {
			return b.S
		}
		return StrV{}
	}
	I["(*bytes.Buffer).Write"] = func(p *Path, a []Value, site ssa.Instruction) Value {
		s := p.bytesAsStr(a[1])
		bufWrite(p, a[0], s, site)
		return TupleV{E: []Value{IntV{T: s.LenTerm(), Small: true}, IfaceV{}}}
	}
	I["(*bytes.Buffer).WriteString"] = func(p *Path, a []Value, site ssa.Instruction) Value {
		s := a[1].(StrV)
		bufWrite(p, a[0], s, site)
		return TupleV{E: []Value{IntV{T: s.LenTerm(), Small: true}, IfaceV{}}}
	}
	I["(*bytes.Buffer).WriteByte"] = func(p *Path, a []Value, site ssa.Instruction) Value {
		bufWrite(p, a[0], bytesToStr([]*smt.Term{a[1].(IntV).T}), site)
		return IfaceV{}
	}
	I["(*bytes.Buffer).WriteRune"] = func(p *Path, a []Value, site ssa.Instruction) Value {
		r := p.asciiRune(a[1], site)
		bufWrite(p, a[0], bytesToStr([]*smt.Term{r}), site)
		return TupleV{E: []Value{mkInt(1), IfaceV{}}}
	}
	I["(*bytes.Buffer).Bytes"] = func(p *Path, a []Value, site ssa.Instruction) Value {
		pv, _ := a[0].(PtrV)
		return BytesV{S: bufContent(p, a[0], site), Alias: pv.Obj}
	}
	I["(*bytes.Buffer).String"] = func(p *Path, a []Value, site ssa.Instruction) Value {
		if a[0].(PtrV).Obj == nil {
			return constStr("<nil>")
		}
		return bufContent(p, a[0], site)
	}
	I["(*bytes.Buffer).Len"] = func(p *Path, a []Value, site ssa.Instruction) Value {
		return IntV{T: bufContent(p, a[0], site).LenTerm(), Small: true}
	}
	I["(*bytes.Buffer).Reset"] = func(p *Path, a []Value, site ssa.Instruction) Value {
		sv := p.load(a[0], site).(StructV)
		p.store(a[0], StructV{F: append([]Value{BytesV{S: StrV{}}}, sv.F[1:]...)}, site)
		return nil
	}
	I["(*strings.Builder).WriteString"] = func(p *Path, a []Value, site ssa.Instruction) Value {
		s := a[1].(StrV)
		sv := p.load(a[0], site).(StructV)
		cur := StrV{}
		if b, ok := sv.F[1].(BytesV); ok {
			cur = b.S
		}
		fs := append([]Value{}, sv.F...)
		fs[1] = BytesV{S: strConcat(cur, s)}
		p.store(a[0], StructV{F: fs}, site)
		return TupleV{E: []Value{IntV{T: s.LenTerm(), Small: true}, IfaceV{}}}
	}
	I["(*strings.Builder).String"] = func(p *Path, a []Value, site ssa.Instruction) Value {
		sv := p.load(a[0], site).(StructV)
		if b, ok := sv.F[1].(BytesV); ok {
			return b.S
		}
		return StrV{}
	}

	// ---- vrt JSON vocabulary (harness-side inspection / document construction)
	jOf := func(p *Path, v Value) *JV {
		sv, ok := v.(StructV)
		if ok && len(sv.F) > 0 {
			if jv, ok := sv.F[0].(JVal); ok {
				return jv.J
			}
		}
		p.unsupported("vrt.JSON value without payload (%T)", v)
		return nil
	}
	mkJ := func(j *JV, ok bool) Value { return StructV{F: []Value{JVal{J: j}, mkBool(ok)}} }
	I["vrt.ParseJSON"] = func(p *Path, a []Value, site ssa.Instruction) Value {
		j, _ := p.parseJSON(p.bytesAsStr(a[0]), site)
		if j == nil {
			return TupleV{E: []Value{mkJ(jNull(), false), mkBool(false)}}
		}
		return TupleV{E: []Value{mkJ(j, true), mkBool(true)}}
	}
	I["(vrt.JSON).Kind"] = func(p *Path, a []Value, site ssa.Instruction) Value {
		j := jOf(p, a[0])
		if j.Kind == JSym {
			// 0 null 1 bool 2 int 3 frac 4 string 5 array 6 object -> vrt kinds
			return IntV{T: smt.Ite(smt.Le(j.K, smt.Int(2)), j.K, smt.Sub(j.K, smt.Int(1))), Small: true}
		}
		return mkInt(int64(j.Kind))
	}
	I["(vrt.JSON).IsInt"] = func(p *Path, a []Value, site ssa.Instruction) Value {
		j := jOf(p, a[0])
		if j.Kind == JSym {
			return BoolV{T: smt.Eq(j.K, smt.Int(2))}
		}
		return mkBool(j.Kind == JNum && j.IsInt)
	}
	I["(vrt.JSON).Len"] = func(p *Path, a []Value, site ssa.Instruction) Value {
		j := p.resolveSym(jOf(p, a[0]))
		if j.Kind == JObj {
			return mkInt(int64(len(j.Keys)))
		}
		return mkInt(int64(len(j.Elems)))
	}
	I["(vrt.JSON).Index"] = func(p *Path, a []Value, site ssa.Instruction) Value {
		j := p.resolveSym(jOf(p, a[0]))
		i := p.constIntArg(a[1], "vrt.JSON.Index")
		if j.Kind == JObj && i < len(j.Vals) {
			return mkJ(j.Vals[i], true)
		}
		if j.Kind == JArr && i < len(j.Elems) {
			return mkJ(j.Elems[i], true)
		}
		p.goPanicAt(site, "vrt.JSON.Index out of range")
		return nil
	}
	I["(vrt.JSON).Key"] = func(p *Path, a []Value, site ssa.Instruction) Value {
		j := p.resolveSym(jOf(p, a[0]))
		i := p.constIntArg(a[1], "vrt.JSON.Key")
		if i >= len(j.Keys) {
			p.goPanicAt(site, "vrt.JSON.Key out of range")
		}
		return j.Keys[i]
	}
	I["(vrt.JSON).Get"] = func(p *Path, a []Value, site ssa.Instruction) Value {
		j := p.resolveSym(jOf(p, a[0]))
		k := a[1].(StrV)
		// last duplicate wins (as encoding/json)
		for i := len(j.Keys) - 1; i >= 0; i-- {
			if p.branch(p.strEq(j.Keys[i], k)) {
				return TupleV{E: []Value{mkJ(j.Vals[i], true), mkBool(true)}}
			}
		}
		return TupleV{E: []Value{mkJ(jNull(), false), mkBool(false)}}
	}
	I["(vrt.JSON).Str"] = func(p *Path, a []Value, site ssa.Instruction) Value {
		j := jOf(p, a[0])
		if j.Kind == JSym {
			// the string payload (meaningful when the kind is string)
			return j.SymS
		}
		return j.S
	}
	I["(vrt.JSON).Int"] = func(p *Path, a []Value, site ssa.Instruction) Value {
		j := jOf(p, a[0])
		if j.Kind == JSym {
			return IntV{T: j.SymI}
		}
		if j.I == nil {
			return mkInt(0)
		}
		return IntV{T: j.I}
	}
	I["(vrt.JSON).Bool"] = func(p *Path, a []Value, site ssa.Instruction) Value {
		j := jOf(p, a[0])
		if j.Kind == JSym {
			return BoolV{T: j.SymB}
		}
		if j.B == nil {
			return mkBool(false)
		}
		return BoolV{T: j.B}
	}
	I["(vrt.JSON).IsDateTime"] = func(p *Path, a []Value, site ssa.Instruction) Value {
		j := jOf(p, a[0])
		if j.Kind != JStr {
			return mkBool(false)
		}
		if j.S.IsConst() {
			r := p.E.intrinsics["time.Parse"](p, []Value{constStr("2006-01-02T15:04:05Z07:00"), j.S}, site).(TupleV)
			return mkBool(r.E[1].(IfaceV).T == nil)
		}
		if len(j.S.A) == 1 && j.S.A[0].Prov != nil && j.S.A[0].Prov.Fn == "TimeFormat_"+rfc3339NanoID {
			return mkBool(true)
		}
		return mkBool(false)
	}
	// IsFloat32: is the number representable in single precision? Decided only
	// for constants and for documents built as such (JSONValue(..., -32)).
	I["(vrt.JSON).IsFloat32"] = func(p *Path, a []Value, site ssa.Instruction) Value {
		j := jOf(p, a[0])
		if j.Kind == JSym {
			return mkBool(j.F32)
		}
		if j.Kind != JNum {
			return mkBool(false)
		}
		if j.F32 {
			return mkBool(true)
		}
		if j.IsInt {
			if c, ok := j.I.Int64(); ok {
				return mkBool(float64(float32(c)) == float64(c))
			}
			return mkBool(false)
		}
		if j.F.Conc {
			return mkBool(float64(float32(j.F.F)) == j.F.F)
		}
		return mkBool(j.F.Bits == 32)
	}
	I["(vrt.JSON).Equal"] = func(p *Path, a []Value, site ssa.Instruction) Value {
		return BoolV{T: p.jvEq(jOf(p, a[0]), jOf(p, a[1]))}
	}
	// vrt.JSONAny(name): the serialisation of an arbitrary scalar-or-empty JSON value
	I["vrt.JSONAny"] = func(p *Path, a []Value, site ssa.Instruction) Value {
		name := p.inputName(p.constStrArg(a[0], "vrt.JSONAny name"))
		k := p.freshNamed("i_"+name+".kind", smt.SInt)
		p.assert(smt.And(smt.Ge(k, smt.Int(0)), smt.Le(k, smt.Int(6))))
		p.inputs = append(p.inputs, &Input{Name: name + ".kind", Kind: "int", T: k})
		b := p.freshNamed("b_"+name+".bool", smt.SBool)
		p.inputs = append(p.inputs, &Input{Name: name + ".bool", Kind: "bool", T: b})
		i := p.freshNamed("i_"+name+".int", smt.SInt)
		p.assert(smt.And(smt.Ge(i, smt.Neg(smt.BigInt(pow2(63)))), smt.Lt(i, smt.BigInt(pow2(63)))))
		p.inputs = append(p.inputs, &Input{Name: name + ".int", Kind: "int", T: i})
		s := p.freshStr("s_"+name+".str", 6)
		p.inputs = append(p.inputs, &Input{Name: name + ".str", Kind: "string", Arr: s.A[0].Arr, Len: s.A[0].Len, Max: 6})
		// payload strings are plain printable ASCII that encoding/json writes
		// verbatim (no escapes): the text is then exactly quote+bytes+quote
		for q := 0; q < 6; q++ {
			b := smt.Select(s.A[0].Arr, smt.Int(int64(q)))
			p.assert(smt.And(smt.Ge(b, smt.Int(0x20)), smt.Le(b, smt.Int(0x7e)), smt.Not(smt.Eq(b, smt.Int('"'))), smt.Not(smt.Eq(b, smt.Int('\\'))),
				smt.Not(smt.Eq(b, smt.Int('<'))), smt.Not(smt.Eq(b, smt.Int('>'))), smt.Not(smt.Eq(b, smt.Int('&')))))
		}
		j := &JV{Kind: JSym, K: k, SymB: b, SymI: i, SymS: s, Name: name}
		return p.jsonRope(j)
	}
	// vrt.JSONValue(name, mask, intBits): like JSONAny with the kind restricted to
	// the bits of mask and an integer payload restricted to intBits (0: int64)
	I["vrt.JSONValue"] = func(p *Path, a []Value, site ssa.Instruction) Value {
		mask := p.constIntArg(a[1], "vrt.JSONValue mask")
		bits := p.constIntArg(a[2], "vrt.JSONValue intBits")
		r := I["vrt.JSONAny"](p, a[:1], site).(StrV)
		j := r.A[0].Prov.J
		var ks []*smt.Term
		for k := 0; k <= 6; k++ {
			if mask&(1<<uint(k)) != 0 {
				ks = append(ks, smt.Eq(j.K, smt.Int(int64(k))))
			}
		}
		p.assert(smt.Or(ks...))
		if bits == 32 {
			p.assert(smt.And(smt.Ge(j.SymI, smt.Int(-(1<<31))), smt.Lt(j.SymI, smt.Int(1<<31))))
		}
		if bits == -32 {
			// a number valid for `format: float`: representable in single precision
			j.F32 = true
			p.assert(smt.And(smt.Gt(j.SymI, smt.Int(-(1<<24))), smt.Lt(j.SymI, smt.Int(1<<24))))
		}
		return r
	}
	I["vrt.JSONString"] = func(p *Path, a []Value, site ssa.Instruction) Value {
		return p.jsonRope(&JV{Kind: JStr, S: a[0].(StrV)})
	}
	I["vrt.JSONInt"] = func(p *Path, a []Value, site ssa.Instruction) Value {
		return p.jsonRope(&JV{Kind: JNum, IsInt: true, I: a[0].(IntV).T})
	}
}

// jvEq: structural equality of two JSON trees as a Bool term (object member
// order ignored for constant keys).
func (p *Path) jvEq(a, b *JV) *smt.Term {
	if a.Kind == JSym || b.Kind == JSym {
		if a == b {
			return smt.True
		}
		a, b = p.resolveSym(a), p.resolveSym(b)
	}
	if a.Kind != b.Kind {
		return smt.False
	}
	switch a.Kind {
	case JNull:
		return smt.True
	case JBool:
		return smt.Eq(a.B, b.B)
	case JStr:
		return p.strEq(a.S, b.S)
	case JNum:
		if a.IsInt != b.IsInt {
			return smt.False
		}
		if a.IsInt {
			return smt.Eq(a.I, b.I)
		}
		return p.valEq(a.F, b.F)
	case JArr:
		if len(a.Elems) != len(b.Elems) {
			return smt.False
		}
		t := smt.True
		for i := range a.Elems {
			t = smt.And(t, p.jvEq(a.Elems[i], b.Elems[i]))
		}
		return t
	case JObj:
		if len(a.Keys) != len(b.Keys) {
			return smt.False
		}
		t := smt.True
		used := make([]bool, len(b.Keys))
		for i, k := range a.Keys {
			found := false
			for j2, k2 := range b.Keys {
				if used[j2] {
					continue
				}
				if p.branch(p.strEq(k, k2)) {
					used[j2] = true
					found = true
					t = smt.And(t, p.jvEq(a.Vals[i], b.Vals[j2]))
					break
				}
			}
			if !found {
				return smt.False
			}
		}
		return t
	}
	return smt.False
}
