package sym

import (
	"path"
	"path/filepath"
	"strings"

	"golang.org/x/tools/go/ssa"
)

// Native evaluation of pure standard-library functions on concrete arguments
// (DESIGN 2.4 class 1): no model involved.
func init() {
	extraRegs = append(extraRegs, func(e *Engine) {
		s1 := func(name string, f func(string) string) {
			e.intrinsics[name] = func(p *Path, a []Value, site ssa.Instruction) Value {
				return constStr(f(p.constStrArg(a[0], name+" argument")))
			}
		}
		s1("path/filepath.Ext", filepath.Ext)
		s1("path/filepath.Base", filepath.Base)
		s1("path/filepath.Dir", filepath.Dir)
		s1("path/filepath.Clean", filepath.Clean)
		s1("path.Ext", path.Ext)
		s1("path.Base", path.Base)
		s1("path.Clean", path.Clean)
		if _, ok := e.intrinsics["path.Dir"]; !ok {
			s1("path.Dir", path.Dir)
		}
		e.intrinsics["strings.Fields"] = func(p *Path, a []Value, site ssa.Instruction) Value {
			var out []StrV
			for _, f := range strings.Fields(p.constStrArg(a[0], "strings.Fields argument")) {
				out = append(out, constStr(f))
			}
			return p.mkStrSlice(out)
		}
		e.intrinsics["strings.Count"] = func(p *Path, a []Value, site ssa.Instruction) Value {
			return mkInt(int64(strings.Count(p.constStrArg(a[0], "strings.Count s"), p.constStrArg(a[1], "strings.Count sep"))))
		}
	})
}
