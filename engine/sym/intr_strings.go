package sym

import (
	"strings"

	"gosym/smt"

	"golang.org/x/tools/go/ssa"
)

func (e *Engine) registerStrings() {
	I := e.intrinsics
	I["strings.HasPrefix"] = func(p *Path, a []Value, site ssa.Instruction) Value {
		return BoolV{T: p.hasPrefix(a[0].(StrV), a[1].(StrV))}
	}
	I["strings.HasSuffix"] = func(p *Path, a []Value, site ssa.Instruction) Value {
		return BoolV{T: p.hasSuffix(a[0].(StrV), a[1].(StrV))}
	}
	I["strings.Index"] = func(p *Path, a []Value, site ssa.Instruction) Value {
		s, sub := a[0].(StrV), a[1].(StrV)
		if !sub.IsConst() {
			p.unsupported("strings.Index with symbolic pattern")
		}
		return IntV{T: p.indexConst(s, []byte(sub.ConstString())), Small: true}
	}
	I["strings.LastIndex"] = func(p *Path, a []Value, site ssa.Instruction) Value {
		s, sub := a[0].(StrV), a[1].(StrV)
		if !sub.IsConst() {
			p.unsupported("strings.LastIndex with symbolic pattern")
		}
		return IntV{T: p.lastIndexConst(s, []byte(sub.ConstString())), Small: true}
	}
	I["strings.IndexByte"] = func(p *Path, a []Value, site ssa.Instruction) Value {
		s := a[0].(StrV)
		c, ok := a[1].(IntV).T.Int64()
		if !ok {
			p.unsupported("strings.IndexByte with symbolic byte")
		}
		return IntV{T: p.indexConst(s, []byte{byte(c)}), Small: true}
	}
	I["strings.Contains"] = func(p *Path, a []Value, site ssa.Instruction) Value {
		s, sub := a[0].(StrV), a[1].(StrV)
		if !sub.IsConst() {
			p.unsupported("strings.Contains with symbolic pattern")
		}
		pat := []byte(sub.ConstString())
		// fast path: the pattern occurs inside a constant atom
		for _, at := range s.A {
			if at.Kind == AConst && strings.Contains(string(at.B), string(pat)) {
				return mkBool(true)
			}
		}
		return BoolV{T: smt.Ge(p.indexConst(s, pat), smt.Int(0))}
	}
	I["strings.TrimPrefix"] = func(p *Path, a []Value, site ssa.Instruction) Value {
		s, pre := a[0].(StrV), a[1].(StrV)
		if !pre.IsConst() {
			p.unsupported("TrimPrefix with symbolic prefix")
		}
		n := int64(len(pre.ConstString()))
		c := p.hasPrefix(s, pre)
		if len(s.A) == 1 && s.A[0].Kind == AView && !c.IsConst() {
			at := s.A[0]
			d := smt.Ite(c, smt.Int(n), smt.Int(0))
			return StrV{A: []Atom{{Kind: AView, Arr: at.Arr, Off: smt.Add(at.Off, d), Len: smt.Sub(at.Len, d), Max: at.Max}}}
		}
		if p.branch(c) {
			return p.subRope(s, smt.Int(n), s.LenTerm(), site)
		}
		return s
	}
	I["strings.TrimSuffix"] = func(p *Path, a []Value, site ssa.Instruction) Value {
		s, suf := a[0].(StrV), a[1].(StrV)
		if !suf.IsConst() {
			p.unsupported("TrimSuffix with symbolic suffix")
		}
		n := int64(len(suf.ConstString()))
		c := p.hasSuffix(s, suf)
		if len(s.A) == 1 && s.A[0].Kind == AView && !c.IsConst() {
			at := s.A[0]
			d := smt.Ite(c, smt.Int(n), smt.Int(0))
			return StrV{A: []Atom{{Kind: AView, Arr: at.Arr, Off: at.Off, Len: smt.Sub(at.Len, d), Max: at.Max}}}
		}
		if p.branch(c) {
			return p.subRope(s, smt.Int(0), smt.Sub(s.LenTerm(), smt.Int(n)), site)
		}
		return s
	}
	I["strings.ReplaceAll"] = func(p *Path, a []Value, site ssa.Instruction) Value {
		s, old, nw := a[0].(StrV), a[1].(StrV), a[2].(StrV)
		if !old.IsConst() {
			p.unsupported("ReplaceAll with symbolic pattern")
		}
		return p.replaceAll(s, []byte(old.ConstString()), nw, site)
	}
	I["strings.Split"] = func(p *Path, a []Value, site ssa.Instruction) Value {
		s, sep := a[0].(StrV), a[1].(StrV)
		if !sep.IsConst() || len(sep.ConstString()) == 0 {
			p.unsupported("Split with symbolic/empty separator")
		}
		return p.mkStrSlice(p.split(s, []byte(sep.ConstString()), site))
	}
	I["strings.Join"] = func(p *Path, a []Value, site ssa.Instruction) Value {
		ss := p.strList(a[0])
		sep := a[1].(StrV)
		var out StrV
		for i, x := range ss {
			if i > 0 {
				out = strConcat(out, sep)
			}
			out = strConcat(out, x)
		}
		return out
	}
	I["strings.ToLower"] = func(p *Path, a []Value, site ssa.Instruction) Value {
		return p.mapBytes(a[0].(StrV), site, func(b *smt.Term) *smt.Term {
			return smt.Ite(smt.And(smt.Ge(b, smt.Int('A')), smt.Le(b, smt.Int('Z'))), smt.Add(b, smt.Int(32)), b)
		}, strings.ToLower)
	}
	I["strings.ToUpper"] = func(p *Path, a []Value, site ssa.Instruction) Value {
		return p.mapBytes(a[0].(StrV), site, func(b *smt.Term) *smt.Term {
			return smt.Ite(smt.And(smt.Ge(b, smt.Int('a')), smt.Le(b, smt.Int('z'))), smt.Sub(b, smt.Int(32)), b)
		}, strings.ToUpper)
	}
	I["strings.Title"] = func(p *Path, a []Value, site ssa.Instruction) Value {
		return p.titleASCII(a[0].(StrV), site, false)
	}
	I["strings.TrimRight"] = func(p *Path, a []Value, site ssa.Instruction) Value {
		s := a[0].(StrV)
		cut := p.constStrArg(a[1], "TrimRight cutset")
		if s.IsConst() {
			return constStr(strings.TrimRight(s.ConstString(), cut))
		}
		bs, n := p.concretizeLen(s, site)
		for n > 0 {
			var is []*smt.Term
			for i := 0; i < len(cut); i++ {
				is = append(is, smt.Eq(bs[n-1], smt.Int(int64(cut[i]))))
			}
			if !p.branch(smt.Or(is...)) {
				break
			}
			n--
		}
		return bytesToStr(bs[:n])
	}
	I["strings.TrimSpace"] = func(p *Path, a []Value, site ssa.Instruction) Value {
		s := a[0].(StrV)
		if s.IsConst() {
			return constStr(strings.TrimSpace(s.ConstString()))
		}
		p.unsupported("TrimSpace on symbolic string")
		return nil
	}
	I["strings.EqualFold"] = func(p *Path, a []Value, site ssa.Instruction) Value {
		s, t := a[0].(StrV), a[1].(StrV)
		if s.IsConst() && t.IsConst() {
			return mkBool(strings.EqualFold(s.ConstString(), t.ConstString()))
		}
		// ASCII model: equal lengths and byte-wise equal after lower-casing A-Z
		ls, lt := s.LenTerm(), t.LenTerm()
		n := s.MaxLen()
		if m := t.MaxLen(); m < n {
			n = m
		}
		lower := func(b *smt.Term) *smt.Term {
			return smt.Ite(smt.And(smt.Ge(b, smt.Int('A')), smt.Le(b, smt.Int('Z'))), smt.Add(b, smt.Int(32)), b)
		}
		cs := []*smt.Term{smt.Eq(ls, lt)}
		// against an ASCII constant without k/s (the only ASCII letters that
		// non-ASCII runes fold to) a non-ASCII byte can never match: exact model
		exactConst := false
		for _, c := range []StrV{s, t} {
			if c.IsConst() {
				ok := true
				for _, ch := range []byte(c.ConstString()) {
					if ch >= 128 || ch == 'k' || ch == 'K' || ch == 's' || ch == 'S' {
						ok = false
					}
				}
				exactConst = exactConst || ok
			}
		}
		for k := 0; k < n; k++ {
			kk := smt.Int(int64(k))
			bs, bt := p.byteAt(s, kk), p.byteAt(t, kk)
			if exactConst {
				cs = append(cs, smt.Implies(smt.Lt(kk, ls), smt.And(smt.Lt(bs, smt.Int(128)), smt.Lt(bt, smt.Int(128)), smt.Eq(lower(bs), lower(bt)))))
				continue
			}
			for _, b := range []*smt.Term{bs, bt} {
				if !b.IsInt() {
					p.obligationAssume(smt.Implies(smt.Lt(kk, ls), smt.Lt(b, smt.Int(128))), site, "EqualFold on non-ASCII bytes")
				}
			}
			cs = append(cs, smt.Implies(smt.Lt(kk, ls), smt.Eq(lower(bs), lower(bt))))
		}
		return BoolV{T: smt.And(cs...)}
	}
	I["strings.Repeat"] = func(p *Path, a []Value, site ssa.Instruction) Value {
		s := a[0].(StrV)
		n := p.concretize(a[1].(IntV).T, "Repeat count", site)
		var out StrV
		for i := 0; i < n; i++ {
			out = strConcat(out, s)
		}
		return out
	}
	I["unicode.IsLetter"] = func(p *Path, a []Value, site ssa.Instruction) Value {
		r := p.asciiRune(a[0], site)
		return BoolV{T: smt.Or(smt.And(smt.Ge(r, smt.Int('a')), smt.Le(r, smt.Int('z'))), smt.And(smt.Ge(r, smt.Int('A')), smt.Le(r, smt.Int('Z'))))}
	}
	I["unicode.IsUpper"] = func(p *Path, a []Value, site ssa.Instruction) Value {
		r := p.asciiRune(a[0], site)
		return BoolV{T: smt.And(smt.Ge(r, smt.Int('A')), smt.Le(r, smt.Int('Z')))}
	}
	I["unicode.IsLower"] = func(p *Path, a []Value, site ssa.Instruction) Value {
		r := p.asciiRune(a[0], site)
		return BoolV{T: smt.And(smt.Ge(r, smt.Int('a')), smt.Le(r, smt.Int('z')))}
	}
	I["unicode.IsDigit"] = func(p *Path, a []Value, site ssa.Instruction) Value {
		r := p.asciiRune(a[0], site)
		return BoolV{T: smt.And(smt.Ge(r, smt.Int('0')), smt.Le(r, smt.Int('9')))}
	}
	I["unicode.ToUpper"] = func(p *Path, a []Value, site ssa.Instruction) Value {
		r := p.asciiRune(a[0], site)
		return IntV{T: smt.Ite(smt.And(smt.Ge(r, smt.Int('a')), smt.Le(r, smt.Int('z'))), smt.Sub(r, smt.Int(32)), r), Small: true}
	}
	I["unicode.ToLower"] = func(p *Path, a []Value, site ssa.Instruction) Value {
		r := p.asciiRune(a[0], site)
		return IntV{T: smt.Ite(smt.And(smt.Ge(r, smt.Int('A')), smt.Le(r, smt.Int('Z'))), smt.Add(r, smt.Int(32)), r), Small: true}
	}
	// cases.Title(language.Und, cases.NoLower).String on an ASCII alphanumeric
	// piece: upper-case the first LETTER (leading digits are skipped), keep the rest
	I["(golang.org/x/text/cases.Caser).String"] = func(p *Path, a []Value, site ssa.Instruction) Value {
		s := a[1].(StrV)
		return p.titleFirstLetter(s, site)
	}
	I["bytes.Equal"] = func(p *Path, a []Value, site ssa.Instruction) Value {
		return BoolV{T: p.strEq(p.bytesAsStr(a[0]), p.bytesAsStr(a[1]))}
	}
}

func (p *Path) bytesAsStr(v Value) StrV {
	switch x := v.(type) {
	case BytesV:
		return x.S
	case SliceV:
		if x.Len == 0 {
			return StrV{}
		}
		return p.sliceToStr(x)
	case StrV:
		return x
	}
	p.unsupported("expected []byte, got %T", v)
	return StrV{}
}

func (p *Path) asciiRune(v Value, site ssa.Instruction) *smt.Term {
	r := v.(IntV).T
	if c, ok := r.Int64(); ok {
		if c >= 128 {
			p.unsupported("unicode predicate on non-ASCII rune")
		}
		return r
	}
	p.obligationAssume(smt.And(smt.Ge(r, smt.Int(0)), smt.Lt(r, smt.Int(128))), site, "unicode predicate on non-ASCII rune")
	return r
}

func (p *Path) mapBytes(s StrV, site ssa.Instruction, f func(*smt.Term) *smt.Term, native func(string) string) Value {
	if s.IsConst() {
		return constStr(native(s.ConstString()))
	}
	bs, n := p.concretizeLen(s, site)
	out := make([]*smt.Term, n)
	for i, b := range bs {
		if !b.IsInt() {
			p.obligationAssume(smt.Lt(b, smt.Int(128)), site, "case mapping of non-ASCII byte")
		} else if c, _ := b.Int64(); c >= 128 {
			p.unsupported("case mapping of non-ASCII constant")
		}
		out[i] = f(b)
	}
	return bytesToStr(out)
}

// titleASCII models strings.Title (afterDigit=false) on ASCII: upper-case the
// first letter of each word, where a word starts after a non-letter/digit/_/'
// separator. With skipDigits (cases.Title(und, NoLower) on one alphanumeric
// piece) see intr_generator.go.
func (p *Path) titleASCII(s StrV, site ssa.Instruction, _ bool) Value {
	if s.IsConst() {
		return constStr(strings.Title(s.ConstString()))
	}
	bs, n := p.concretizeLen(s, site)
	out := make([]*smt.Term, n)
	// strings.Title: isSeparator(prev) => upper(r). prev starts as ' '.
	prevSep := smt.True
	for i := 0; i < n; i++ {
		b := bs[i]
		if !b.IsInt() {
			p.obligationAssume(smt.Lt(b, smt.Int(128)), site, "strings.Title of non-ASCII byte")
		}
		isLower := smt.And(smt.Ge(b, smt.Int('a')), smt.Le(b, smt.Int('z')))
		out[i] = smt.Ite(smt.And(prevSep, isLower), smt.Sub(b, smt.Int(32)), b)
		// isSeparator for ASCII: not alnum and not underscore
		alnum := smt.Or(
			smt.And(smt.Ge(b, smt.Int('a')), smt.Le(b, smt.Int('z'))),
			smt.And(smt.Ge(b, smt.Int('A')), smt.Le(b, smt.Int('Z'))),
			smt.And(smt.Ge(b, smt.Int('0')), smt.Le(b, smt.Int('9'))),
			smt.Eq(b, smt.Int('_')))
		prevSep = smt.Not(alnum)
	}
	return bytesToStr(out)
}

// replaceAll with constant pattern; forks on length and on each match position.
func (p *Path) replaceAll(s StrV, old []byte, nw StrV, site ssa.Instruction) StrV {
	if s.IsConst() && nw.IsConst() {
		return constStr(strings.ReplaceAll(s.ConstString(), string(old), nw.ConstString()))
	}
	if len(old) == 0 {
		p.unsupported("ReplaceAll with empty pattern")
	}
	// constant atoms are handled natively piecewise only when the pattern is a
	// single byte (no match can straddle atoms)
	if len(old) == 1 {
		var out StrV
		for _, at := range s.A {
			switch at.Kind {
			case AConst:
				parts := strings.Split(string(at.B), string(old))
				for i, part := range parts {
					if i > 0 {
						out = strConcat(out, nw)
					}
					out = strConcat(out, constStr(part))
				}
			default:
				sub := StrV{A: []Atom{at}}
				bs, n := p.concretizeLen(sub, site)
				run := 0
				flush := func(end int) {
					if end > run {
						out = strConcat(out, bytesToStr(bs[run:end]))
					}
				}
				for i := 0; i < n; i++ {
					if p.branch(smt.Eq(bs[i], smt.Int(int64(old[0])))) {
						flush(i)
						out = strConcat(out, nw)
						run = i + 1
					}
				}
				flush(n)
			}
		}
		return out
	}
	bs, n := p.concretizeLen(s, site)
	var out StrV
	run := 0
	for i := 0; i < n; {
		if i+len(old) <= n {
			var m []*smt.Term
			for k, c := range old {
				m = append(m, smt.Eq(bs[i+k], smt.Int(int64(c))))
			}
			if p.branch(smt.And(m...)) {
				out = strConcat(out, bytesToStr(bs[run:i]))
				out = strConcat(out, nw)
				i += len(old)
				run = i
				continue
			}
		}
		i++
	}
	out = strConcat(out, bytesToStr(bs[run:n]))
	return out
}

func (p *Path) split(s StrV, sep []byte, site ssa.Instruction) []StrV {
	if s.IsConst() {
		var out []StrV
		for _, x := range strings.Split(s.ConstString(), string(sep)) {
			out = append(out, constStr(x))
		}
		return out
	}
	bs, n := p.concretizeLen(s, site)
	var out []StrV
	run := 0
	for i := 0; i < n; {
		if i+len(sep) <= n {
			var m []*smt.Term
			for k, c := range sep {
				m = append(m, smt.Eq(bs[i+k], smt.Int(int64(c))))
			}
			if p.branch(smt.And(m...)) {
				out = append(out, bytesToStr(bs[run:i]))
				i += len(sep)
				run = i
				continue
			}
		}
		i++
	}
	out = append(out, bytesToStr(bs[run:n]))
	return out
}

// TitleFirstLetterModel is the concrete form of the cases.Title(Und,NoLower)
// model (used by the differential self-test against the real function).
func TitleFirstLetterModel(s string) string {
	bs := []byte(s)
	for i, c := range bs {
		isL := (c >= 'a' && c <= 'z') || (c >= 'A' && c <= 'Z')
		isD := c >= '0' && c <= '9'
		if isL {
			if c >= 'a' && c <= 'z' {
				bs[i] = c - 32
			}
			break
		}
		if !isD {
			break
		}
	}
	return string(bs)
}

func (p *Path) titleFirstLetter(s StrV, site ssa.Instruction) Value {
	if s.IsConst() {
		return constStr(TitleFirstLetterModel(s.ConstString()))
	}
	bs, n := p.concretizeLen(s, site)
	out := make([]*smt.Term, n)
	// pending: no letter seen yet and only digits so far
	pending := smt.True
	for i := 0; i < n; i++ {
		b := bs[i]
		if !b.IsInt() {
			isAlnum := smt.Or(
				smt.And(smt.Ge(b, smt.Int('a')), smt.Le(b, smt.Int('z'))),
				smt.And(smt.Ge(b, smt.Int('A')), smt.Le(b, smt.Int('Z'))),
				smt.And(smt.Ge(b, smt.Int('0')), smt.Le(b, smt.Int('9'))))
			p.obligationAssume(isAlnum, site, "cases.Title model applied to a non-alphanumeric byte")
		}
		isLower := smt.And(smt.Ge(b, smt.Int('a')), smt.Le(b, smt.Int('z')))
		isDigit := smt.And(smt.Ge(b, smt.Int('0')), smt.Le(b, smt.Int('9')))
		out[i] = smt.Ite(smt.And(pending, isLower), smt.Sub(b, smt.Int(32)), b)
		pending = smt.And(pending, isDigit)
	}
	return bytesToStr(out)
}
