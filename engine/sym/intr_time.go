package sym

import (
	"fmt"
	"time"
	"hash/fnv"

	"gosym/smt"

	"golang.org/x/tools/go/ssa"
)

func layoutID(l string) string {
	h := fnv.New32a()
	h.Write([]byte(l))
	return fmt.Sprintf("%08x", h.Sum32())
}

func (p *Path) timeVal(tok *smt.Term, prov *Prov) OpaqueV {
	return OpaqueV{Type: p.E.namedType("time", "Time"), Tok: tok, Prov: prov}
}

func init() {
	extraRegs = append(extraRegs, func(e *Engine) {
		I := e.intrinsics
		// time.Parse: contract stub. (ok, instant) are uninterpreted functions of
		// the bytes per layout; the output of Format with the same layout cancels.
		I["time.Parse"] = func(p *Path, a []Value, site ssa.Instruction) Value {
			layout := p.constStrArg(a[0], "time.Parse layout")
			s := a[1].(StrV)
			id := layoutID(layout)
			if s.IsConst() {
				t, err := time.Parse(layout, s.ConstString())
				if err != nil {
					return TupleV{E: []Value{p.timeVal(smt.Int(0), nil), p.mkErr(constStr(err.Error()), nil)}}
				}
				return TupleV{E: []Value{p.timeVal(smt.Int(t.UnixNano()|1), nil), IfaceV{}}}
			}
			rfcFamily := layout == "2006-01-02T15:04:05Z07:00" || layout == "2006-01-02T15:04:05.999999999Z07:00"
			if len(s.A) == 1 && s.A[0].Prov != nil && (s.A[0].Prov.Fn == "TimeFormat_"+id || (rfcFamily && s.A[0].Prov.Fn == "TimeFormat_"+rfc3339NanoID)) {
				return TupleV{E: []Value{s.A[0].Prov.Args[0], IfaceV{}}}
			}
			arr, off, ln := p.viewOf(s, site)
			okf, valf := "tp_ok_"+id, "tp_val_"+id
			p.declareFun(okf, []smt.Sort{smt.SArr, smt.SInt, smt.SInt}, smt.SBool)
			p.declareFun(valf, []smt.Sort{smt.SArr, smt.SInt, smt.SInt}, smt.SInt)
			ok := smt.App(okf, smt.SBool, arr, off, ln)
			p.assert(smt.Implies(smt.Eq(ln, smt.Int(0)), smt.Not(ok)))
			if p.branch(ok) {
				tok := smt.App(valf, smt.SInt, arr, off, ln)
				// a parsed instant is never the zero token
				p.assert(smt.Not(smt.Eq(tok, smt.Int(0))))
				return TupleV{E: []Value{p.timeVal(tok, &Prov{Fn: "time.Parse_" + id, Args: []Value{s}}), IfaceV{}}}
			}
			msg := strConcat(strConcat(constStr(`parsing time "`), s), constStr(`": cannot parse`))
			return TupleV{E: []Value{p.timeVal(smt.Int(0), nil), p.mkErr(msg, nil)}}
		}
		I["(time.Time).Format"] = func(p *Path, a []Value, site ssa.Instruction) Value {
			t := a[0].(OpaqueV)
			layout := p.constStrArg(a[1], "Time.Format layout")
			return p.opaqueStr("TimeFormat_"+layoutID(layout), []Value{t}, 40)
		}
		I["(time.Time).Equal"] = func(p *Path, a []Value, site ssa.Instruction) Value {
			return BoolV{T: smt.Eq(a[0].(OpaqueV).Tok, a[1].(OpaqueV).Tok)}
		}
		I["(time.Time).IsZero"] = func(p *Path, a []Value, site ssa.Instruction) Value {
			return BoolV{T: smt.Eq(a[0].(OpaqueV).Tok, smt.Int(0))}
		}
		I["(time.Time).UTC"] = func(p *Path, a []Value, site ssa.Instruction) Value { return a[0] }
		I["vrt.Time"] = func(p *Path, a []Value, site ssa.Instruction) Value {
			name := p.inputName(p.constStrArg(a[0], "vrt.Time name"))
			t := p.freshNamed("t_"+name, smt.SInt)
			p.inputs = append(p.inputs, &Input{Name: name, Kind: "int", T: t})
			return p.timeVal(t, nil)
		}
		I["vrt.Float64"] = func(p *Path, a []Value, site ssa.Instruction) Value {
			name := p.inputName(p.constStrArg(a[0], "vrt.Float64 name"))
			t := p.freshNamed("f_"+name, smt.SInt)
			p.inputs = append(p.inputs, &Input{Name: name, Kind: "int", T: t})
			return FloatV{Tok: t}
		}
		I["vrt.Float32"] = I["vrt.Float64"]
	})
}
