package sym

import (
	"fmt"
	"go/types"
	"math"
	"math/big"
	"net/http"
	"sort"
	"strconv"
	"strings"

	"gosym/smt"

	"golang.org/x/tools/go/ssa"
)

func NewEngine(prog *ssa.Program, cfg Config) *Engine {
	e := &Engine{Prog: prog, Cfg: cfg, TargetPaths: map[string]bool{}, Transparent: map[string]bool{}, intrinsics: map[string]intrFn{}}
	e.registerCore()
	e.registerStrings()
	e.registerHTTP()
	e.registerJSON()
	e.registerMisc()
	for _, r := range extraRegs {
		r(e)
	}
	return e
}

var extraRegs []func(e *Engine)

func (e *Engine) lookupIntrinsic(fn *ssa.Function, key string) (intrFn, bool) {
	if in, ok := e.intrinsics[key]; ok {
		return in, true
	}
	// vrt lives at <module>/vrt in every scratch module
	if i := strings.LastIndex(key, "/vrt."); i >= 0 {
		if in, ok := e.intrinsics[key[i+1:]]; ok {
			return in, true
		}
		// methods: (<module>/vrt.JSON).Kind -> (vrt.JSON).Kind
		if j := strings.IndexAny(key, "(*"); j == 0 {
			k := 0
			for k < len(key) && (key[k] == '(' || key[k] == '*') {
				k++
			}
			if in, ok := e.intrinsics[key[:k]+key[i+1:]]; ok {
				return in, true
			}
		}
	}
	if fn.Pkg != nil && fn.Pkg.Pkg.Name() == "vrt" {
		if in, ok := e.intrinsics["vrt."+fn.Name()]; ok {
			return in, true
		}
	}
	return nil, false
}

func (p *Path) constStrArg(v Value, what string) string {
	s, ok := v.(StrV)
	if !ok || !s.IsConst() {
		p.unsupported("%s must be a constant string", what)
	}
	return s.ConstString()
}

func (p *Path) constIntArg(v Value, what string) int {
	iv, ok := v.(IntV)
	if ok {
		if c, ok := iv.T.Int64(); ok {
			return int(c)
		}
	}
	p.unsupported("%s must be a constant int", what)
	return 0
}

// namedChoose: a choice that, under vrt.ShareNames, is taken once per name.
func (p *Path) namedChoose(name string, n int) int {
	if !p.shareNames {
		return p.choose(name, n)
	}
	if v, ok := p.memo["choose|"+name]; ok {
		return int(v.(IntV).T.I.Int64())
	}
	c := p.choose(name, n)
	p.memo["choose|"+name] = mkInt(int64(c))
	return c
}

func (p *Path) inputName(base string) string {
	if p.shareNames {
		return base
	}
	p.inputCnt[base]++
	if n := p.inputCnt[base]; n > 1 {
		return fmt.Sprintf("%s#%d", base, n)
	}
	return base
}

func errType() types.Type { return types.Universe.Lookup("error").Type() }

func (p *Path) mkErr(msg StrV, wrapped Value) IfaceV {
	p.nerr++
	return IfaceV{T: errType(), V: ErrV{Msg: msg, Wrapped: wrapped, ID: p.nerr}}
}

func (e *Engine) registerCore() {
	I := e.intrinsics
	// ---- vrt: the harness vocabulary
	I["vrt.String"] = func(p *Path, a []Value, site ssa.Instruction) Value {
		name := p.inputName(p.constStrArg(a[0], "vrt.String name"))
		max := p.constIntArg(a[1], "vrt.String bound")
		s := p.freshStr("s_"+name, max)
		p.inputs = append(p.inputs, &Input{Name: name, Kind: "string", Arr: s.A[0].Arr, Len: s.A[0].Len, Max: max})
		return s
	}
	I["vrt.Int"] = func(p *Path, a []Value, site ssa.Instruction) Value {
		name := p.inputName(p.constStrArg(a[0], "vrt.Int name"))
		t := p.freshNamed("i_"+name, smt.SInt)
		p.assert(smt.And(smt.Ge(t, smt.BigInt(new(big.Int).Neg(pow2(63)))), smt.Lt(t, smt.BigInt(pow2(63)))))
		p.inputs = append(p.inputs, &Input{Name: name, Kind: "int", T: t})
		return IntV{T: t}
	}
	I["vrt.IntRange"] = func(p *Path, a []Value, site ssa.Instruction) Value {
		name := p.inputName(p.constStrArg(a[0], "vrt.IntRange name"))
		lo, hi := p.constIntArg(a[1], "lo"), p.constIntArg(a[2], "hi")
		t := p.freshNamed("i_"+name, smt.SInt)
		p.assert(smt.And(smt.Ge(t, smt.Int(int64(lo))), smt.Le(t, smt.Int(int64(hi)))))
		p.inputs = append(p.inputs, &Input{Name: name, Kind: "int", T: t})
		return IntV{T: t, Small: true}
	}
	I["vrt.Bool"] = func(p *Path, a []Value, site ssa.Instruction) Value {
		name := p.inputName(p.constStrArg(a[0], "vrt.Bool name"))
		t := p.freshNamed("b_"+name, smt.SBool)
		p.inputs = append(p.inputs, &Input{Name: name, Kind: "bool", T: t})
		return BoolV{T: t}
	}
	I["vrt.Choose"] = func(p *Path, a []Value, site ssa.Instruction) Value {
		name := p.inputName(p.constStrArg(a[0], "vrt.Choose name"))
		n := p.constIntArg(a[1], "vrt.Choose n")
		c := p.namedChoose(name, n)
		p.inputs = append(p.inputs, &Input{Name: name, Kind: "choose", Conc: c})
		return mkInt(int64(c))
	}
	I["vrt.Assume"] = func(p *Path, a []Value, site ssa.Instruction) Value {
		c := a[0].(BoolV).T
		if c.IsFalse() {
			panic(stopPath{kind: "assume"})
		}
		if !c.IsTrue() {
			if !p.feasible(c) {
				panic(stopPath{kind: "assume"})
			}
			p.assert(c)
		}
		return nil
	}
	I["vrt.Assert"] = func(p *Path, a []Value, site ssa.Instruction) Value {
		p.checkAssert(a[0].(BoolV).T, p.constStrArg(a[1], "vrt.Assert msg"), site)
		return nil
	}
	I["vrt.Known"] = func(p *Path, a []Value, site ssa.Instruction) Value {
		p.regions = append(p.regions, Region{ID: p.constStrArg(a[0], "vrt.Known id"), Cond: a[1].(BoolV).T})
		return nil
	}
	I["vrt.Reach"] = func(p *Path, a []Value, site ssa.Instruction) Value {
		p.res.Reached = append(p.res.Reached, p.constStrArg(a[0], "vrt.Reach label"))
		return nil
	}
	// vrt.PermuteMaps(on): from here on every `range` over a map takes its
	// iteration order from a nondeterministic choice (all orders are explored)
	I["vrt.PermuteMaps"] = func(p *Path, a []Value, site ssa.Instruction) Value {
		p.side["permute"] = a[0].(BoolV).T.IsTrue()
		return nil
	}
	I["vrt.PermuteSomeMaps"] = func(p *Path, a []Value, site ssa.Instruction) Value {
		// up to n designated map ranges iterate in an arbitrary order
		n := p.constIntArg(a[0], "vrt.PermuteSomeMaps budget")
		if n > 0 {
			p.side["permute"] = "one"
			p.side["permuteBudget"] = n
			p.side["permuteHere"] = false
		} else {
			p.side["permute"] = false
		}
		return nil
	}
	I["vrt.PoolLeftovers"] = func(p *Path, a []Value, site ssa.Instruction) Value {
		p.side["poolLeftovers"] = a[0].(BoolV).T.IsTrue()
		return nil
	}
	I["vrt.PermuteOneMap"] = func(p *Path, a []Value, site ssa.Instruction) Value {
		if a[0].(BoolV).T.IsTrue() {
			p.side["permute"] = "one"
			p.side["permuteBudget"] = 1
			p.side["permuteHere"] = false
		} else {
			p.side["permute"] = false
		}
		return nil
	}
	I["vrt.Repeat"] = func(p *Path, a []Value, site ssa.Instruction) Value { return mkInt(1) }
	I["golang.org/x/exp/maps.Keys"] = func(p *Path, a []Value, site ssa.Instruction) Value {
		it := p.mkRange(a[0], site).(*RangeIter)
		if len(it.Keys) == 0 {
			return SliceV{Arr: p.newObj(nil, ArrayV{}), Len: 0, Cap: 0}
		}
		o := p.newObj(nil, ArrayV{E: append([]Value{}, it.Keys...)})
		return SliceV{Arr: o, Len: len(it.Keys), Cap: len(it.Keys)}
	}
	I["vrt.MustReach"] = func(p *Path, a []Value, site ssa.Instruction) Value {
		p.res.Required = append(p.res.Required, p.constStrArg(a[0], "vrt.MustReach label"))
		return nil
	}
	I["vrt.Enter"] = func(p *Path, a []Value, site ssa.Instruction) Value {
		p.entered = true
		return nil
	}
	I["vrt.ShareNames"] = func(p *Path, a []Value, site ssa.Instruction) Value {
		p.shareNames = a[0].(BoolV).T.IsTrue()
		return nil
	}
	I["vrt.Shared"] = func(p *Path, a []Value, site ssa.Instruction) Value {
		seen := map[*Object]bool{}
		for _, v := range p.variadic(a[0]) {
			if iv, ok := v.(IfaceV); ok {
				v = iv.V
			}
			p.markShared(v, seen)
		}
		return nil
	}
	I["vrt.Concurrent"] = func(p *Path, a []Value, site ssa.Instruction) Value {
		// one request symbolically; natively (race replay) the same closure runs in several goroutines
		return p.callValue(a[0], nil, site)
	}
	I["vrt.Symbolic"] = func(p *Path, a []Value, site ssa.Instruction) Value { return mkBool(true) }
	I["vrt.SetQuery"] = func(p *Path, a []Value, site ssa.Instruction) Value {
		u := a[0].(PtrV)
		p.side[fmt.Sprintf("query:%d", u.Obj.ID)] = a[1]
		return nil
	}
	I["vrt.Fail"] = func(p *Path, a []Value, site ssa.Instruction) Value {
		p.checkAssert(smt.False, p.constStrArg(a[0], "vrt.Fail msg"), site)
		return nil
	}

	// ---- builtins
	I["builtin.len"] = func(p *Path, a []Value, site ssa.Instruction) Value {
		switch x := a[0].(type) {
		case StrV:
			return IntV{T: x.LenTerm(), Small: true}
		case BytesV:
			return IntV{T: x.S.LenTerm(), Small: true}
		case SliceV:
			return mkInt(int64(x.Len))
		case MapV:
			if x.M == nil {
				return mkInt(0)
			}
			return mkInt(int64(len(x.M.Entries)))
		case ArrayV:
			return mkInt(int64(len(x.E)))
		case PtrV:
			if x.Obj != nil {
				if arr, ok := getPath(x.Obj.Val, x.Path, p).(ArrayV); ok {
					return mkInt(int64(len(arr.E)))
				}
			}
		}
		p.unsupported("len of %T", a[0])
		return nil
	}
	I["builtin.cap"] = func(p *Path, a []Value, site ssa.Instruction) Value {
		switch x := a[0].(type) {
		case SliceV:
			return mkInt(int64(x.Cap))
		case BytesV:
			return IntV{T: x.S.LenTerm(), Small: true}
		}
		p.unsupported("cap of %T", a[0])
		return nil
	}
	I["builtin.append"] = func(p *Path, a []Value, site ssa.Instruction) Value {
		return p.appendOp(a[0], a[1], site)
	}
	I["builtin.copy"] = func(p *Path, a []Value, site ssa.Instruction) Value {
		dst, ok1 := a[0].(SliceV)
		src, ok2 := a[1].(SliceV)
		if !ok1 || !ok2 {
			p.unsupported("copy(%T,%T)", a[0], a[1])
		}
		n := dst.Len
		if src.Len < n {
			n = src.Len
		}
		if n > 0 {
			p.noteWrite(dst.Arr, site)
			vals := make([]Value, n)
			for i := 0; i < n; i++ {
				vals[i] = getPath(src.Arr.Val, []int{src.Off + i}, p)
			}
			for i := 0; i < n; i++ {
				dst.Arr.Val = setPath(dst.Arr.Val, []int{dst.Off + i}, vals[i], p)
			}
		}
		return mkInt(int64(n))
	}
	I["builtin.clear"] = func(p *Path, a []Value, site ssa.Instruction) Value {
		if mv, ok := a[0].(MapV); ok {
			if mv.M != nil {
				p.noteMapWrite(mv.M, site)
				mv.M.Entries = nil
			}
			return nil
		}
		p.unsupported("clear of %T", a[0])
		return nil
	}
	I["builtin.delete"] = func(p *Path, a []Value, site ssa.Instruction) Value {
		m := a[0].(MapV)
		if m.M != nil {
			p.noteMapWrite(m.M, site)
		}
		p.mapDelete(m, a[1])
		return nil
	}
	I["builtin.print"] = func(p *Path, a []Value, site ssa.Instruction) Value { return nil }
	I["builtin.println"] = I["builtin.print"]
	I["builtin.ssa:wrapnilchk"] = func(p *Path, a []Value, site ssa.Instruction) Value {
		if isNilValue(a[0]) {
			p.goPanicAt(site, "value method called through nil pointer")
		}
		return a[0]
	}
	I["builtin.min"] = func(p *Path, a []Value, site ssa.Instruction) Value {
		x, y := a[0].(IntV), a[1].(IntV)
		return IntV{T: smt.Ite(smt.Le(x.T, y.T), x.T, y.T), Small: x.Small && y.Small}
	}
	I["builtin.max"] = func(p *Path, a []Value, site ssa.Instruction) Value {
		x, y := a[0].(IntV), a[1].(IntV)
		return IntV{T: smt.Ite(smt.Ge(x.T, y.T), x.T, y.T), Small: x.Small && y.Small}
	}
}

func (p *Path) appendOp(s, t Value, site ssa.Instruction) Value {
	// []byte ropes
	switch sv := s.(type) {
	case BytesV:
		switch tv := t.(type) {
		case BytesV:
			return BytesV{S: strConcat(sv.S, tv.S)}
		case StrV:
			return BytesV{S: strConcat(sv.S, tv)}
		case SliceV:
			if tv.Len == 0 {
				return sv
			}
			return BytesV{S: strConcat(sv.S, p.sliceToStr(tv))}
		}
	case SliceV:
		switch tv := t.(type) {
		case StrV: // append([]byte(nil), s...)
			if sv.Len == 0 {
				return BytesV{S: tv}
			}
			return BytesV{S: strConcat(p.sliceToStr(sv), tv)}
		case BytesV:
			if sv.Len == 0 {
				return BytesV{S: tv.S}
			}
			return BytesV{S: strConcat(p.sliceToStr(sv), tv.S)}
		case SliceV:
			if tv.Len == 0 {
				return sv
			}
			nl := sv.Len + tv.Len
			vals := make([]Value, tv.Len)
			for i := range vals {
				vals[i] = getPath(tv.Arr.Val, []int{tv.Off + i}, p)
			}
			if sv.Arr != nil && nl <= sv.Cap {
				p.noteWrite(sv.Arr, site)
				for i, v := range vals {
					sv.Arr.Val = setPath(sv.Arr.Val, []int{sv.Off + sv.Len + i}, v, p)
				}
				return SliceV{Arr: sv.Arr, Off: sv.Off, Len: nl, Cap: sv.Cap}
			}
			// grow: doubling (approximation of runtime.growslice, see DESIGN)
			nc := sv.Cap * 2
			if nc < nl {
				nc = nl
			}
			es := make([]Value, nc)
			for i := 0; i < sv.Len; i++ {
				es[i] = getPath(sv.Arr.Val, []int{sv.Off + i}, p)
			}
			copy(es[sv.Len:], vals)
			var zero Value
			if nc > nl {
				zero = zeroLike(vals[0])
			}
			for i := nl; i < nc; i++ {
				es[i] = zero
			}
			o := p.newObj(nil, ArrayV{E: es})
			return SliceV{Arr: o, Off: 0, Len: nl, Cap: nc}
		}
	}
	p.unsupported("append(%T,%T)", s, t)
	return nil
}

// zeroLike gives a zero value shaped like v (used to pad grown slices).
func zeroLike(v Value) Value {
	switch x := v.(type) {
	case IntV:
		return mkInt(0)
	case BoolV:
		return mkBool(false)
	case StrV:
		return StrV{}
	case PtrV:
		return PtrV{Type: x.Type}
	case IfaceV:
		return IfaceV{}
	case FuncV:
		return FuncV{}
	case SliceV:
		return SliceV{}
	case MapV:
		return MapV{}
	case StructV:
		fs := make([]Value, len(x.F))
		for i := range fs {
			fs[i] = zeroLike(x.F[i])
		}
		return StructV{F: fs}
	case FloatV:
		return FloatV{Conc: true}
	}
	return v
}

func (p *Path) sliceToStr(s SliceV) StrV {
	bs := make([]*smt.Term, s.Len)
	for i := range bs {
		bs[i] = getPath(s.Arr.Val, []int{s.Off + i}, p).(IntV).T
	}
	return bytesToStr(bs)
}

// strList converts a []string value to Go-side list of StrV.
func (p *Path) strList(v Value) []StrV {
	s, ok := v.(SliceV)
	if !ok {
		p.unsupported("expected []string, got %T", v)
	}
	out := make([]StrV, s.Len)
	for i := range out {
		out[i] = getPath(s.Arr.Val, []int{s.Off + i}, p).(StrV)
	}
	return out
}

func (p *Path) mkStrSlice(ss []StrV) Value {
	if ss == nil {
		return SliceV{}
	}
	es := make([]Value, len(ss))
	for i, s := range ss {
		es[i] = s
	}
	o := p.newObj(nil, ArrayV{E: es})
	return SliceV{Arr: o, Len: len(ss), Cap: len(ss)}
}

// ---------------------------------------------------------------- fmt / errors

// formatRope renders a printf format with symbolic args as a rope.
func (p *Path) formatRope(format string, args []Value, site ssa.Instruction) (StrV, Value) {
	var out StrV
	var wrapped Value
	ai := 0
	for i := 0; i < len(format); i++ {
		c := format[i]
		if c != '%' {
			out = strConcat(out, constStr(string(c)))
			continue
		}
		i++
		if i >= len(format) {
			break
		}
		verb := format[i]
		if verb == '%' {
			out = strConcat(out, constStr("%"))
			continue
		}
		// flags/width are not used by goag's formats except %q %v %s %d %w %T %x
		for strings.IndexByte("+-# 0123456789.", verb) >= 0 && i+1 < len(format) {
			i++
			verb = format[i]
		}
		if ai >= len(args) {
			out = strConcat(out, constStr("%!"+string(verb)+"(MISSING)"))
			continue
		}
		arg := args[ai]
		ai++
		if verb == 'w' {
			wrapped = arg
		}
		out = strConcat(out, p.fmtValue(arg, verb, site))
	}
	return out, wrapped
}

func (p *Path) fmtValue(v Value, verb byte, site ssa.Instruction) StrV {
	if iv, ok := v.(IfaceV); ok {
		if iv.T == nil {
			return constStr("<nil>")
		}
		if verb == 'T' {
			return constStr(iv.T.String())
		}
		// error / Stringer
		switch pv := iv.V.(type) {
		case ErrV:
			return pv.Msg
		}
		if types.Implements(iv.T, errType().Underlying().(*types.Interface)) {
			fn := p.lookupMethod(iv.T, nil, "Error")
			if fn != nil {
				r := p.callFn(fn, []Value{iv.V}, nil, site)
				return r.(StrV)
			}
		}
		v = iv.V
	}
	switch x := v.(type) {
	case StrV:
		if verb == 'q' {
			if x.IsConst() {
				return constStr(strconv.Quote(x.ConstString()))
			}
			return strConcat(strConcat(constStr(`"`), p.opaqueStr("quote", []Value{x}, x.MaxLen()*4+2)), constStr(`"`))
		}
		return x
	case IntV:
		if c, ok := x.T.Int64(); ok {
			if verb == 'x' {
				return constStr(strconv.FormatInt(c, 16))
			}
			if verb == 'c' {
				return constStr(string(rune(c)))
			}
			return constStr(strconv.FormatInt(c, 10))
		}
		return p.opaqueStr("itoa", []Value{x}, 20)
	case BoolV:
		if x.T.IsConst() {
			return constStr(strconv.FormatBool(x.T.B))
		}
		return p.opaqueStr("btoa", []Value{x}, 5)
	case nil:
		return constStr("<nil>")
	case BytesV:
		return x.S
	}
	return p.opaqueStr("fmt", []Value{v}, 32)
}

// opaqueStr: an arbitrary string produced by a stubbed formatter; memoised per
// (fn,args) within the path so that equal inputs give the same output.
func (p *Path) opaqueStr(fn string, args []Value, max int) StrV {
	key := fn + "|"
	for _, a := range args {
		key += describe(a) + "|"
	}
	if v, ok := p.memo[key]; ok {
		return v.(StrV)
	}
	s := p.freshStr(fmt.Sprintf("op_%s_%d", fn, p.nvar+1), max)
	p.nvar++
	s.A[0].Prov = &Prov{Fn: fn, Args: args}
	p.constrainOpaque(fn, args, s)
	p.memo[key] = s
	return s
}

// constrainOpaque states what is known about the TEXT a stubbed formatter
// produces (alphabet, length): enough for the code that splits on '/' or
// compares with "null" to be decided as it is natively.
func (p *Path) constrainOpaque(fn string, args []Value, s StrV) {
	at := s.A[0]
	alphabet := func(ok func(b *smt.Term) *smt.Term) {
		for k := 0; k < at.Max; k++ {
			b := smt.Select(at.Arr, smt.Int(int64(k)))
			p.assert(smt.Implies(smt.Lt(smt.Int(int64(k)), at.Len), ok(b)))
		}
		// the same set, syntactically, for the string operations that can use it
		var set [256]bool
		for c := 0; c < 256; c++ {
			set[c] = ok(smt.Int(int64(c))).IsTrue()
		}
		s.A[0].Alpha = &set
	}
	in := func(b *smt.Term, lo, hi byte) *smt.Term {
		return smt.And(smt.Ge(b, smt.Int(int64(lo))), smt.Le(b, smt.Int(int64(hi))))
	}
	switch {
	case fn == "FormatInt10" || fn == "itoa":
		x := args[0].(IntV).T
		p.assert(smt.Eq(at.Len, decimalLen(x)))
		alphabet(func(b *smt.Term) *smt.Term { return smt.Or(in(b, '0', '9'), smt.Eq(b, smt.Int('-'))) })
	case strings.HasPrefix(fn, "FormatFloat_"):
		p.assert(smt.Ge(at.Len, smt.Int(1)))
		alphabet(func(b *smt.Term) *smt.Term {
			// digits, sign, point, exponent, and the letters of NaN / Inf
			r := smt.Or(in(b, '0', '9'), smt.Eq(b, smt.Int('-')), smt.Eq(b, smt.Int('+')), smt.Eq(b, smt.Int('.')))
			for _, c := range []byte("eENaInfp") {
				r = smt.Or(r, smt.Eq(b, smt.Int(int64(c))))
			}
			return r
		})
	case fn == "TimeFormat_"+rfc3339NanoID:
		// yyyy-mm-ddThh:mm:ss[.f]Z|+hh:mm; years of more than four digits are formatted too
		p.assert(smt.Ge(at.Len, smt.Int(20)))
		alphabet(func(b *smt.Term) *smt.Term {
			r := smt.Or(in(b, '0', '9'), smt.Eq(b, smt.Int('-')), smt.Eq(b, smt.Int('+')), smt.Eq(b, smt.Int('.')), smt.Eq(b, smt.Int(':')))
			return smt.Or(r, smt.Eq(b, smt.Int('T')), smt.Eq(b, smt.Int('Z')))
		})
	case strings.HasPrefix(fn, "TimeFormat_"):
		p.assert(smt.Ge(at.Len, smt.Int(1)))
		alphabet(func(b *smt.Term) *smt.Term {
			return smt.Or(in(b, '0', '9'), smt.Eq(b, smt.Int('-')), smt.Eq(b, smt.Int('+')), smt.Eq(b, smt.Int('.')), smt.Eq(b, smt.Int(':')), in(b, 'A', 'Z'), in(b, 'a', 'z'), smt.Eq(b, smt.Int(' ')))
		})
	case fn == "btoa":
		p.assert(smt.And(smt.Ge(at.Len, smt.Int(4)), smt.Le(at.Len, smt.Int(5))))
		alphabet(func(b *smt.Term) *smt.Term { return in(b, 'a', 'z') })
	}
}

func (e *Engine) registerMisc() {
	I := e.intrinsics
	I["fmt.Errorf"] = func(p *Path, a []Value, site ssa.Instruction) Value {
		f := p.constStrArg(a[0], "fmt.Errorf format")
		msg, w := p.formatRope(f, p.variadic(a[1]), site)
		return p.mkErr(msg, w)
	}
	I["fmt.Sprintf"] = func(p *Path, a []Value, site ssa.Instruction) Value {
		f := p.constStrArg(a[0], "fmt.Sprintf format")
		msg, _ := p.formatRope(f, p.variadic(a[1]), site)
		return msg
	}
	I["fmt.Sprint"] = func(p *Path, a []Value, site ssa.Instruction) Value {
		var out StrV
		for _, v := range p.variadic(a[0]) {
			out = strConcat(out, p.fmtValue(v, 'v', site))
		}
		return out
	}
	I["errors.New"] = func(p *Path, a []Value, site ssa.Instruction) Value { return p.mkErr(a[0].(StrV), nil) }
	I["errors.Unwrap"] = func(p *Path, a []Value, site ssa.Instruction) Value {
		iv := a[0].(IfaceV)
		if ev, ok := iv.V.(ErrV); ok && ev.Wrapped != nil {
			return ev.Wrapped
		}
		if iv.T != nil {
			if fn := p.lookupMethod(iv.T, nil, "Unwrap"); fn != nil {
				return p.callFn(fn, []Value{iv.V}, nil, site)
			}
		}
		return IfaceV{}
	}
	I["errors.Is"] = func(p *Path, a []Value, site ssa.Instruction) Value {
		cur := a[0].(IfaceV)
		tgt := a[1].(IfaceV)
		for n := 0; n < 16 && cur.T != nil; n++ {
			if p.branch(p.valEq(cur, tgt)) {
				return mkBool(true)
			}
			nx := I["errors.Unwrap"](p, []Value{cur}, site)
			cur, _ = nx.(IfaceV)
		}
		return mkBool(false)
	}
	I["errors.As"] = func(p *Path, a []Value, site ssa.Instruction) Value {
		cur := a[0].(IfaceV)
		tgtI := a[1].(IfaceV)
		ptr, ok := tgtI.V.(PtrV)
		if !ok || tgtI.T == nil {
			p.unsupported("errors.As target %T", tgtI.V)
		}
		want := tgtI.T.(*types.Pointer).Elem()
		for n := 0; n < 16 && cur.T != nil; n++ {
			if _, isE := cur.V.(ErrV); !isE {
				if it, isI := want.Underlying().(*types.Interface); isI {
					if types.Implements(cur.T, it) {
						p.store(ptr, cur, site)
						return mkBool(true)
					}
				} else if types.Identical(cur.T, want) {
					p.store(ptr, cur.V, site)
					return mkBool(true)
				}
			}
			nx := I["errors.Unwrap"](p, []Value{cur}, site)
			cur, _ = nx.(IfaceV)
		}
		return mkBool(false)
	}
	nop := func(p *Path, a []Value, site ssa.Instruction) Value { return nil }
	I["log.Println"] = nop
	I["log.Printf"] = nop
	I["log.Print"] = nop
	I["log.Fatalf"] = func(p *Path, a []Value, site ssa.Instruction) Value {
		panic(stopPath{kind: "exit", msg: "log.Fatalf"})
	}
	I["os.Exit"] = func(p *Path, a []Value, site ssa.Instruction) Value {
		panic(stopPath{kind: "exit", msg: "os.Exit"})
	}

	// ---- strconv
	I["strconv.ParseInt"] = func(p *Path, a []Value, site ssa.Instruction) Value {
		s := a[0].(StrV)
		base := p.constIntArg(a[1], "ParseInt base")
		bits := p.constIntArg(a[2], "ParseInt bitSize")
		if base != 10 {
			p.unsupported("ParseInt base %d", base)
		}
		if bits == 0 {
			bits = 64
		}
		return p.parseInt(s, bits, site)
	}
	I["strconv.Atoi"] = func(p *Path, a []Value, site ssa.Instruction) Value {
		return p.parseInt(a[0].(StrV), 64, site)
	}
	I["strconv.ParseBool"] = func(p *Path, a []Value, site ssa.Instruction) Value {
		s := a[0].(StrV)
		if s.IsConst() {
			b, err := strconv.ParseBool(s.ConstString())
			if err != nil {
				return TupleV{E: []Value{mkBool(false), p.mkErr(constStr(err.Error()), nil)}}
			}
			return TupleV{E: []Value{mkBool(b), IfaceV{}}}
		}
		var tr, fl []*smt.Term
		for _, l := range []string{"1", "t", "T", "TRUE", "true", "True"} {
			tr = append(tr, p.strEq(s, constStr(l)))
		}
		for _, l := range []string{"0", "f", "F", "FALSE", "false", "False"} {
			fl = append(fl, p.strEq(s, constStr(l)))
		}
		isT, isF := smt.Or(tr...), smt.Or(fl...)
		if p.branch(smt.Or(isT, isF)) {
			return TupleV{E: []Value{BoolV{T: isT}, IfaceV{}}}
		}
		msg := strConcat(strConcat(constStr(`strconv.ParseBool: parsing "`), s), constStr(`": invalid syntax`))
		return TupleV{E: []Value{mkBool(false), p.mkErr(msg, nil)}}
	}
	I["strconv.FormatInt"] = func(p *Path, a []Value, site ssa.Instruction) Value {
		x := a[0].(IntV)
		base := p.constIntArg(a[1], "FormatInt base")
		if c, ok := x.T.Int64(); ok {
			return constStr(strconv.FormatInt(c, base))
		}
		return p.opaqueStr(fmt.Sprintf("FormatInt%d", base), []Value{x}, 20)
	}
	I["strconv.Itoa"] = func(p *Path, a []Value, site ssa.Instruction) Value {
		x := a[0].(IntV)
		if c, ok := x.T.Int64(); ok {
			return constStr(strconv.Itoa(int(c)))
		}
		return p.opaqueStr("FormatInt10", []Value{x}, 20)
	}
	I["strconv.FormatBool"] = func(p *Path, a []Value, site ssa.Instruction) Value {
		x := a[0].(BoolV)
		if x.T.IsConst() {
			return constStr(strconv.FormatBool(x.T.B))
		}
		if p.branch(x.T) {
			return constStr("true")
		}
		return constStr("false")
	}
	I["strconv.Quote"] = func(p *Path, a []Value, site ssa.Instruction) Value {
		x := a[0].(StrV)
		if x.IsConst() {
			return constStr(strconv.Quote(x.ConstString()))
		}
		// exact model on ASCII input (forks per byte on the escape classes)
		bs, n := p.concretizeLen(x, site)
		out := constStr(`"`)
		for i := 0; i < n; i++ {
			b := bs[i]
			if !b.IsInt() {
				p.obligationAssume(smt.Lt(b, smt.Int(128)), site, "strconv.Quote of non-ASCII byte")
			}
			// three classes per byte (named escape / printable / hex), not one fork per escape
			named := []struct{ c, l byte }{{'"', '"'}, {'\\', '\\'}, {'\n', 'n'}, {'\r', 'r'}, {'\t', 't'}, {'\a', 'a'}, {'\b', 'b'}, {'\f', 'f'}, {'\v', 'v'}}
			var isNamed []*smt.Term
			letter := smt.Int(0)
			for _, e := range named {
				isNamed = append(isNamed, smt.Eq(b, smt.Int(int64(e.c))))
				letter = smt.Ite(smt.Eq(b, smt.Int(int64(e.c))), smt.Int(int64(e.l)), letter)
			}
			if p.branch(smt.Or(isNamed...)) {
				out = strConcat(out, constStr(`\`))
				out = strConcat(out, bytesToStr([]*smt.Term{letter}))
				continue
			}
			if p.branch(smt.And(smt.Ge(b, smt.Int(0x20)), smt.Le(b, smt.Int(0x7e)))) {
				out = strConcat(out, bytesToStr([]*smt.Term{b}))
				continue
			}
			hex := func(d *smt.Term) *smt.Term {
				return smt.Ite(smt.Lt(d, smt.Int(10)), smt.Add(d, smt.Int('0')), smt.Add(d, smt.Int('a'-10)))
			}
			hi, lo := smt.Div(b, smt.Int(16)), smt.Mod(b, smt.Int(16))
			out = strConcat(out, constStr(`\x`))
			out = strConcat(out, bytesToStr([]*smt.Term{hex(hi), hex(lo)}))
		}
		return strConcat(out, constStr(`"`))
	}
	I["strconv.ParseFloat"] = func(p *Path, a []Value, site ssa.Instruction) Value {
		s := a[0].(StrV)
		bits := p.constIntArg(a[1], "ParseFloat bitSize")
		return p.parseFloat(s, bits, site)
	}
	I["strconv.FormatFloat"] = func(p *Path, a []Value, site ssa.Instruction) Value {
		f := a[0].(FloatV)
		fm := p.constIntArg(a[1], "FormatFloat fmt")
		prec := p.constIntArg(a[2], "FormatFloat prec")
		bits := p.constIntArg(a[3], "FormatFloat bitSize")
		if f.Conc {
			return constStr(strconv.FormatFloat(f.F, byte(fm), prec, bits))
		}
		return p.opaqueStr(fmt.Sprintf("FormatFloat_%c_%d_%d", fm, prec, bits), []Value{f}, 24)
	}

	I["sort.Strings"] = func(p *Path, a []Value, site ssa.Instruction) Value {
		s := a[0].(SliceV)
		ss := p.strList(s)
		cs := make([]string, len(ss))
		for i, x := range ss {
			if !x.IsConst() {
				p.unsupported("sort.Strings on symbolic strings")
			}
			cs[i] = x.ConstString()
		}
		sort.Strings(cs)
		if s.Arr != nil {
			p.noteWrite(s.Arr, site)
		}
		for i, c := range cs {
			s.Arr.Val = setPath(s.Arr.Val, []int{s.Off + i}, constStr(c), p)
		}
		return nil
	}
	I["net/http.CanonicalHeaderKey"] = func(p *Path, a []Value, site ssa.Instruction) Value {
		return constStr(http.CanonicalHeaderKey(p.constStrArg(a[0], "CanonicalHeaderKey")))
	}
	I["net/http.StatusText"] = func(p *Path, a []Value, site ssa.Instruction) Value {
		return constStr(http.StatusText(p.constIntArg(a[0], "StatusText")))
	}
}

// variadic unpacks a []any argument.
func (p *Path) variadic(v Value) []Value {
	s, ok := v.(SliceV)
	if !ok {
		if v == nil {
			return nil
		}
		p.unsupported("variadic arg %T", v)
	}
	out := make([]Value, s.Len)
	for i := range out {
		out[i] = getPath(s.Arr.Val, []int{s.Off + i}, p)
	}
	return out
}



// parseInt: exact model of strconv.ParseInt(s, 10, bits) over the bounded view.
func (p *Path) parseInt(s StrV, bits int, site ssa.Instruction) Value {
	if s.IsConst() {
		v, err := strconv.ParseInt(s.ConstString(), 10, bits)
		if err != nil {
			return TupleV{E: []Value{IntV{T: smt.Int(v)}, p.mkErr(constStr(err.Error()), nil)}}
		}
		return TupleV{E: []Value{IntV{T: smt.Int(v)}, IfaceV{}}}
	}
	// cancellation: ParseInt(FormatInt(x,10)) = x (range check on x)
	if len(s.A) == 1 && s.A[0].Prov != nil && s.A[0].Prov.Fn == "FormatInt10" {
		x := s.A[0].Prov.Args[0].(IntV)
		lo := smt.BigInt(new(big.Int).Neg(pow2(bits - 1)))
		hi := smt.BigInt(pow2(bits - 1))
		if p.branch(smt.And(smt.Ge(x.T, lo), smt.Lt(x.T, hi))) {
			return TupleV{E: []Value{x, IfaceV{}}}
		}
		return TupleV{E: []Value{mkInt(0), p.mkErr(constStr("strconv.ParseInt: value out of range"), nil)}}
	}
	L := s.MaxLen()
	n := s.LenTerm()
	b0 := p.byteAt(s, smt.Int(0))
	hasSign := smt.And(smt.Ge(n, smt.Int(1)), smt.Or(smt.Eq(b0, smt.Int('+')), smt.Eq(b0, smt.Int('-'))))
	neg := smt.And(smt.Ge(n, smt.Int(1)), smt.Eq(b0, smt.Int('-')))
	start := smt.Ite(hasSign, smt.Int(1), smt.Int(0))
	valid := []*smt.Term{smt.Gt(n, start)}
	// the accumulator is threaded through fresh variables so that the printed
	// formula stays linear in L (terms are trees: no sharing when printed)
	startV := p.fresh("pstart", smt.SInt)
	p.assert(smt.Eq(startV, start))
	start = startV
	valid[0] = smt.Gt(n, start)
	acc := smt.Int(0)
	for k := 0; k < L; k++ {
		kk := smt.Int(int64(k))
		in := smt.And(smt.Le(start, kk), smt.Lt(kk, n))
		b := p.byteAt(s, kk)
		if !b.IsInt() && b.Op != "select" {
			bv := p.fresh("pb", smt.SInt)
			p.assert(smt.Eq(bv, b))
			b = bv
		}
		isd := smt.And(smt.Ge(b, smt.Int('0')), smt.Le(b, smt.Int('9')))
		valid = append(valid, smt.Implies(in, isd))
		next := p.fresh("pacc", smt.SInt)
		p.assert(smt.Eq(next, smt.Ite(in, smt.Add(smt.Mul(acc, smt.Int(10)), smt.Sub(b, smt.Int('0'))), acc)))
		acc = next
	}
	mag := acc
	lim := smt.BigInt(pow2(bits - 1))
	inRange := smt.Ite(neg, smt.Le(mag, lim), smt.Lt(mag, lim))
	syntaxOK := smt.And(valid...)
	if p.branch(syntaxOK) {
		if p.branch(inRange) {
			return TupleV{E: []Value{IntV{T: smt.Ite(neg, smt.Neg(mag), mag)}, IfaceV{}}}
		}
		v := smt.Ite(neg, smt.Neg(lim), smt.Sub(lim, smt.Int(1)))
		msg := strConcat(strConcat(constStr(`strconv.ParseInt: parsing "`), s), constStr(`": value out of range`))
		return TupleV{E: []Value{IntV{T: v}, p.mkErr(msg, nil)}}
	}
	msg := strConcat(strConcat(constStr(`strconv.ParseInt: parsing "`), s), constStr(`": invalid syntax`))
	return TupleV{E: []Value{mkInt(0), p.mkErr(msg, nil)}}
}

func (p *Path) declareFun(name string, args []smt.Sort, ret smt.Sort) {
	if !p.declFuns[name] {
		p.declFuns[name] = true
		p.S.DeclareFun(name, args, ret)
	}
}

// viewKey: (array, off, len) of a single-view string, materialising if needed.
func (p *Path) viewOf(s StrV, site ssa.Instruction) (arr, off, ln *smt.Term) {
	if len(s.A) == 1 && s.A[0].Kind == AView {
		return s.A[0].Arr, s.A[0].Off, s.A[0].Len
	}
	// materialise into a fresh array
	L := s.MaxLen()
	arr = p.fresh("mat", smt.SArr)
	ln = s.LenTerm()
	for k := 0; k < L; k++ {
		kk := smt.Int(int64(k))
		p.assert(smt.Implies(smt.Lt(kk, ln), smt.Eq(smt.Select(arr, kk), p.byteAt(s, kk))))
	}
	return arr, smt.Int(0), ln
}

func (p *Path) floatConstTok(f float64) *smt.Term {
	bitsv := math.Float64bits(f)
	if t, ok := p.floatToks[bitsv]; ok {
		return t
	}
	t := p.fresh("fconst", smt.SInt)
	// distinct constants have distinct tokens
	for b, o := range p.floatToks {
		if b != bitsv {
			p.assert(smt.Not(smt.Eq(t, o)))
		}
	}
	p.floatToks[bitsv] = t
	return t
}

func (p *Path) floatStub(fn string, x FloatV) FloatV {
	name := "f_" + fn
	p.declareFun(name, []smt.Sort{smt.SInt}, smt.SInt)
	return FloatV{Tok: smt.App(name, smt.SInt, p.floatTok(x)), Prov: &Prov{Fn: fn, Args: []Value{x}}}
}

// parseFloat: contract stub. ok/value are uninterpreted functions of the bytes;
// FormatFloat output with the same bit size cancels.
func (p *Path) parseFloat(s StrV, bits int, site ssa.Instruction) Value {
	if s.IsConst() {
		v, err := strconv.ParseFloat(s.ConstString(), bits)
		if err != nil {
			return TupleV{E: []Value{FloatV{Conc: true, F: v}, p.mkErr(constStr(err.Error()), nil)}}
		}
		return TupleV{E: []Value{FloatV{Conc: true, F: v}, IfaceV{}}}
	}
	if len(s.A) == 1 && s.A[0].Prov != nil && strings.HasPrefix(s.A[0].Prov.Fn, "FormatFloat_") {
		var fm byte
		var prec, fbits int
		fmt.Sscanf(s.A[0].Prov.Fn, "FormatFloat_%c_%d_%d", &fm, &prec, &fbits)
		if prec == -1 {
			x := s.A[0].Prov.Args[0].(FloatV)
			// the shortest text at fbits denotes x itself when x fits fbits,
			// otherwise x narrowed to float32
			if fbits == 32 && !x.Conc {
				x = p.narrow32(x)
			}
			if bits == 32 && !x.Conc {
				x = p.narrow32(x)
			}
			return TupleV{E: []Value{x, IfaceV{}}}
		}
	}
	arr, off, ln := p.viewOf(s, site)
	okf := fmt.Sprintf("pf_ok_%d", bits)
	valf := fmt.Sprintf("pf_val_%d", bits)
	p.declareFun(okf, []smt.Sort{smt.SArr, smt.SInt, smt.SInt}, smt.SBool)
	p.declareFun(valf, []smt.Sort{smt.SArr, smt.SInt, smt.SInt}, smt.SInt)
	ok := smt.App(okf, smt.SBool, arr, off, ln)
	// contract facts: the empty string never parses
	p.assert(smt.Implies(smt.Eq(ln, smt.Int(0)), smt.Not(ok)))
	if p.branch(ok) {
		fb := 64
		if bits == 32 {
			fb = 32
		}
		return TupleV{E: []Value{FloatV{Tok: smt.App(valf, smt.SInt, arr, off, ln), Bits: fb, Prov: &Prov{Fn: "ParseFloat", Args: []Value{s, mkInt(int64(bits))}}}, IfaceV{}}}
	}
	msg := strConcat(strConcat(constStr(`strconv.ParseFloat: parsing "`), s), constStr(`": invalid syntax`))
	return TupleV{E: []Value{FloatV{Conc: true}, p.mkErr(msg, nil)}}
}
