package sym

import (
	"encoding/json"
	"math/big"
	"fmt"
	"go/types"
	"sort"
	"strconv"
	"strings"
	"unicode/utf8"

	"gosym/smt"

	"golang.org/x/tools/go/ssa"
)

// Abstract JSON values (DESIGN 2.4: documents are trees, encoder output is bytes
// that are turned back into a tree by a concrete tokenizer over the rope atoms).

type JKind int

const (
	JNull JKind = iota
	JBool
	JNum
	JStr
	JArr
	JObj
	JSym // symbolic kind (harness-made documents)
)

type JV struct {
	Kind  JKind
	B     *smt.Term // JBool
	IsInt bool      // JNum: integer-valued, exact
	I     *smt.Term
	F     FloatV // JNum: float
	S     StrV   // JStr: decoded content
	Elems []*JV
	Keys  []StrV
	Vals  []*JV
	// JSym
	K    *smt.Term // 0 null 1 bool 2 int 3 frac 4 string 5 array 6 object
	SymB *smt.Term
	SymI *smt.Term
	SymS StrV
	Name string
	F32  bool // the number is representable as a float32 (documents for `format: float`)
	id   int
}

// JVal wraps a *JV as an engine value (payload of vrt.JSON).
type JVal struct{ J *JV }

func jNull() *JV { return &JV{Kind: JNull} }

func (p *Path) jvID(j *JV) int {
	if j.id == 0 {
		p.njv++
		j.id = p.njv
	}
	return j.id
}

// jsonAtom: the serialisation of a scalar/symbolic JSON value as opaque bytes.
func (p *Path) jsonAtom(j *JV, max int) StrV {
	key := fmt.Sprintf("jsonatom|%d", p.jvID(j))
	if v, ok := p.memo[key]; ok {
		return v.(StrV)
	}
	s := p.freshStr(fmt.Sprintf("js_%d", p.jvID(j)), max)
	at := &s.A[0]
	at.Prov = &Prov{Fn: "json", J: j}
	b0 := smt.Select(at.Arr, smt.Int(0))
	switch j.Kind {
	case JStr:
		p.assert(smt.And(smt.Ge(at.Len, smt.Add(j.S.LenTerm(), smt.Int(2))), smt.Eq(b0, smt.Int('"'))))
	case JNum:
		p.assert(smt.And(smt.Ge(at.Len, smt.Int(1)), smt.Or(smt.Eq(b0, smt.Int('-')), smt.And(smt.Ge(b0, smt.Int('0')), smt.Le(b0, smt.Int('9'))))))
		if j.IsInt {
			p.assert(smt.Eq(at.Len, decimalLen(j.I)))
		}
	case JBool:
		p.assert(smt.Ite(j.B, smt.And(smt.Eq(at.Len, smt.Int(4)), smt.Eq(b0, smt.Int('t'))), smt.And(smt.Eq(at.Len, smt.Int(5)), smt.Eq(b0, smt.Int('f')))))
	case JSym:
		// the length of the text is tied to the payload so that length tests in
		// the code under test are decided as they are natively (vrt.JSONAny)
		isK := func(k int) *smt.Term { return smt.Eq(j.K, smt.Int(int64(k))) }
		nullBytes := smt.And(smt.Eq(at.Len, smt.Int(4)), smt.Eq(b0, smt.Int('n')), smt.Eq(smt.Select(at.Arr, smt.Int(1)), smt.Int('u')),
			smt.Eq(smt.Select(at.Arr, smt.Int(2)), smt.Int('l')), smt.Eq(smt.Select(at.Arr, smt.Int(3)), smt.Int('l')))
		p.assert(smt.Ge(at.Len, smt.Int(1)))
		p.assert(smt.Implies(isK(0), nullBytes))
		p.assert(smt.Implies(smt.Not(isK(0)), smt.Not(smt.Eq(b0, smt.Int('n')))))
		p.assert(smt.Implies(isK(1), smt.Ite(j.SymB, smt.And(smt.Eq(at.Len, smt.Int(4)), smt.Eq(b0, smt.Int('t'))), smt.And(smt.Eq(at.Len, smt.Int(5)), smt.Eq(b0, smt.Int('f'))))))
		p.assert(smt.Implies(isK(2), smt.Eq(at.Len, decimalLen(j.SymI))))
		// fraction: vrt.JSONAny renders (int mod 1000) followed by ".5"
		p.assert(smt.Implies(isK(3), smt.And(smt.Ge(at.Len, smt.Int(3)), smt.Le(at.Len, smt.Int(6)))))
		p.assert(smt.Implies(isK(4), smt.And(smt.Eq(at.Len, smt.Add(j.SymS.LenTerm(), smt.Int(2))), smt.Eq(b0, smt.Int('"')))))
		p.assert(smt.Implies(isK(5), smt.And(smt.Eq(at.Len, smt.Int(2)), smt.Eq(b0, smt.Int('[')))))
		p.assert(smt.Implies(isK(6), smt.And(smt.Eq(at.Len, smt.Int(2)), smt.Eq(b0, smt.Int('{')))))
	}
	p.memo[key] = s
	return s
}

// decimalLen: number of bytes of the decimal text of an int64 term.
func decimalLen(i *smt.Term) *smt.Term {
	abs := smt.Ite(smt.Lt(i, smt.Int(0)), smt.Neg(i), i)
	n := smt.Ite(smt.Lt(i, smt.Int(0)), smt.Int(2), smt.Int(1))
	pow := big.NewInt(10)
	for d := 1; d <= 19; d++ {
		n = smt.Add(n, smt.Ite(smt.Ge(abs, smt.BigInt(pow)), smt.Int(1), smt.Int(0)))
		pow = new(big.Int).Mul(pow, big.NewInt(10))
	}
	return n
}

func jsonQuoteConst(s string) string {
	bs, _ := json.Marshal(s)
	return string(bs)
}

// jsonRope serialises a JSON value (compact form, as encoding/json emits it).
func (p *Path) jsonRope(j *JV) StrV {
	switch j.Kind {
	case JNull:
		return constStr("null")
	case JBool:
		if j.B.IsConst() {
			if j.B.B {
				return constStr("true")
			}
			return constStr("false")
		}
		return p.jsonAtom(j, 5)
	case JNum:
		if j.IsInt {
			if c, ok := j.I.Int64(); ok {
				return constStr(strconv.FormatInt(c, 10))
			}
			return p.jsonAtom(j, 20)
		}
		if j.F.Conc {
			bs, err := json.Marshal(j.F.F)
			if err == nil {
				return constStr(string(bs))
			}
		}
		return p.jsonAtom(j, 24)
	case JStr:
		if j.S.IsConst() {
			return constStr(jsonQuoteConst(j.S.ConstString()))
		}
		return p.jsonAtom(j, j.S.MaxLen()*6+2)
	case JArr:
		out := constStr("[")
		for i, e := range j.Elems {
			if i > 0 {
				out = strConcat(out, constStr(","))
			}
			out = strConcat(out, p.jsonRope(e))
		}
		return strConcat(out, constStr("]"))
	case JObj:
		out := constStr("{")
		for i, k := range j.Keys {
			if i > 0 {
				out = strConcat(out, constStr(","))
			}
			out = strConcat(out, p.jsonRope(&JV{Kind: JStr, S: k}))
			out = strConcat(out, constStr(":"))
			out = strConcat(out, p.jsonRope(j.Vals[i]))
		}
		return strConcat(out, constStr("}"))
	case JSym:
		return p.jsonAtom(j, 16)
	}
	return constStr("null")
}

// ---------------------------------------------------------------- parser

type jparser struct {
	p    *Path
	s    StrV
	ai   int // atom index
	off  int // byte offset inside a constant atom
	site ssa.Instruction
	depth int
}

type jsonSyntaxErr struct{ msg string }

func (jp *jparser) fail(format string, a ...interface{}) { panic(jsonSyntaxErr{fmt.Sprintf(format, a...)}) }

func (jp *jparser) eof() bool { return jp.ai >= len(jp.s.A) }

// peekConst returns the next constant byte, or ok=false when the cursor is at
// a non-constant atom / end.
func (jp *jparser) peekConst() (byte, bool) {
	for jp.ai < len(jp.s.A) {
		a := jp.s.A[jp.ai]
		if a.Kind != AConst {
			return 0, false
		}
		if jp.off < len(a.B) {
			return a.B[jp.off], true
		}
		jp.ai++
		jp.off = 0
	}
	return 0, false
}

func (jp *jparser) next() {
	jp.off++
	jp.peekConst()
}

func (jp *jparser) skipWS() {
	for {
		c, ok := jp.peekConst()
		if !ok || !(c == ' ' || c == '\n' || c == '\t' || c == '\r') {
			return
		}
		jp.next()
	}
}

func (jp *jparser) value() *JV {
	jp.depth++
	if jp.depth > 64 {
		jp.p.unsupported("JSON nesting too deep")
	}
	defer func() { jp.depth-- }()
	jp.skipWS()
	if jp.eof() {
		jp.fail("unexpected end of JSON input")
	}
	c, isConst := jp.peekConst()
	if !isConst {
		a := jp.s.A[jp.ai]
		if a.Prov != nil && a.Prov.J != nil {
			jp.ai++
			jp.off = 0
			return a.Prov.J
		}
		if a.Prov != nil {
			switch {
			case a.Prov.Fn == "FormatInt10" || a.Prov.Fn == "itoa":
				jp.ai++
				return &JV{Kind: JNum, IsInt: true, I: a.Prov.Args[0].(IntV).T}
			case strings.HasPrefix(a.Prov.Fn, "FormatFloat_"):
				jp.ai++
				return &JV{Kind: JNum, F: a.Prov.Args[0].(FloatV)}
			case a.Prov.Fn == "btoa":
				jp.ai++
				return &JV{Kind: JBool, B: a.Prov.Args[0].(BoolV).T}
			}
			jp.fail("invalid character: output of %s where a JSON value is expected", a.Prov.Fn)
		}
		// raw symbolic bytes where a value is expected: the result depends on the
		// bytes; this is outside what the tokenizer decides.
		jp.p.unsupported("JSON tokenizer: raw symbolic bytes at a value position")
	}
	switch {
	case c == '{':
		jp.next()
		obj := &JV{Kind: JObj}
		jp.skipWS()
		if c2, ok := jp.peekConst(); ok && c2 == '}' {
			jp.next()
			return obj
		}
		for {
			jp.skipWS()
			c2, ok := jp.peekConst()
			var key StrV
			if ok && c2 == '"' {
				key = jp.stringLit()
			} else if !ok && !jp.eof() && jp.s.A[jp.ai].Prov != nil && jp.s.A[jp.ai].Prov.J != nil && jp.s.A[jp.ai].Prov.J.Kind == JStr {
				key = jp.s.A[jp.ai].Prov.J.S
				jp.ai++
			} else {
				if ok {
					jp.fail("invalid character %q looking for beginning of object key string", c2)
				}
				jp.fail("invalid token looking for beginning of object key string")
			}
			jp.skipWS()
			if c3, ok := jp.peekConst(); !ok || c3 != ':' {
				jp.fail("invalid character after object key")
			}
			jp.next()
			v := jp.value()
			obj.Keys = append(obj.Keys, key)
			obj.Vals = append(obj.Vals, v)
			jp.skipWS()
			c4, ok := jp.peekConst()
			if ok && c4 == ',' {
				jp.next()
				continue
			}
			if ok && c4 == '}' {
				jp.next()
				return obj
			}
			if ok {
				jp.fail("invalid character %q after object key:value pair", c4)
			}
			jp.fail("invalid token after object key:value pair")
		}
	case c == '[':
		jp.next()
		arr := &JV{Kind: JArr}
		jp.skipWS()
		if c2, ok := jp.peekConst(); ok && c2 == ']' {
			jp.next()
			return arr
		}
		for {
			arr.Elems = append(arr.Elems, jp.value())
			jp.skipWS()
			c4, ok := jp.peekConst()
			if ok && c4 == ',' {
				jp.next()
				continue
			}
			if ok && c4 == ']' {
				jp.next()
				return arr
			}
			jp.fail("invalid character after array element")
		}
	case c == '"':
		return &JV{Kind: JStr, S: jp.stringLit()}
	case c == 't':
		jp.lit("true")
		return &JV{Kind: JBool, B: smt.True}
	case c == 'f':
		jp.lit("false")
		return &JV{Kind: JBool, B: smt.False}
	case c == 'n':
		jp.lit("null")
		return jNull()
	case c == '-' || (c >= '0' && c <= '9'):
		var sb strings.Builder
		for {
			c2, ok := jp.peekConst()
			if !ok || !(c2 == '-' || c2 == '+' || c2 == '.' || c2 == 'e' || c2 == 'E' || (c2 >= '0' && c2 <= '9')) {
				break
			}
			sb.WriteByte(c2)
			jp.next()
		}
		txt := sb.String()
		if !json.Valid([]byte(txt)) {
			jp.fail("invalid number literal %q", txt)
		}
		if i, err := strconv.ParseInt(txt, 10, 64); err == nil {
			return &JV{Kind: JNum, IsInt: true, I: smt.Int(i)}
		}
		f, _ := strconv.ParseFloat(txt, 64)
		return &JV{Kind: JNum, F: FloatV{Conc: true, F: f}}
	}
	jp.fail("invalid character %q looking for beginning of value", c)
	return nil
}

func (jp *jparser) lit(w string) {
	for i := 0; i < len(w); i++ {
		c, ok := jp.peekConst()
		if !ok || c != w[i] {
			jp.fail("invalid character in literal %s", w)
		}
		jp.next()
	}
}

// stringLit parses a string literal starting at the opening quote. Raw symbolic
// bytes inside the quotes are accepted only if none of them needs escaping; the
// other case is explored as a separate path on which the text is not JSON.
func (jp *jparser) stringLit() StrV {
	jp.next() // opening quote
	var out StrV
	var cur []byte
	flush := func() {
		if len(cur) > 0 {
			out = strConcat(out, constStr(string(cur)))
			cur = nil
		}
	}
	for {
		if jp.eof() {
			jp.fail("unexpected end of JSON input in string")
		}
		c, isConst := jp.peekConst()
		if !isConst {
			if jp.eof() {
				jp.fail("unexpected end of JSON input in string")
			}
			a := jp.s.A[jp.ai]
			if a.Prov != nil && a.Prov.J != nil {
				jp.fail("a complete JSON value inside a string literal")
			}
			flush()
			// raw bytes: every byte must be an ordinary string character
			sub := StrV{A: []Atom{a}}
			n := sub.MaxLen()
			ln := sub.LenTerm()
			var bad []*smt.Term
			for k := 0; k < n; k++ {
				kk := smt.Int(int64(k))
				b := jp.p.byteAt(sub, kk)
				bad = append(bad, smt.And(smt.Lt(kk, ln), smt.Or(smt.Eq(b, smt.Int('"')), smt.Eq(b, smt.Int('\\')), smt.Lt(b, smt.Int(0x20)))))
			}
			if jp.p.branch(smt.Or(bad...)) {
				jp.fail("raw bytes needing escaping inside a string literal")
			}
			out = strConcat(out, sub)
			jp.ai++
			jp.off = 0
			continue
		}
		switch {
		case c == '"':
			jp.next()
			flush()
			return out
		case c == '\\':
			jp.next()
			e, ok := jp.peekConst()
			if !ok {
				jp.fail("invalid escape")
			}
			switch e {
			case '"', '\\', '/':
				cur = append(cur, e)
			case 'b':
				cur = append(cur, '\b')
			case 'f':
				cur = append(cur, '\f')
			case 'n':
				cur = append(cur, '\n')
			case 'r':
				cur = append(cur, '\r')
			case 't':
				cur = append(cur, '\t')
			case 'u':
				var hex []byte
				for i := 0; i < 4; i++ {
					jp.next()
					h, ok := jp.peekConst()
					if !ok {
						jp.fail("invalid \\u escape")
					}
					hex = append(hex, h)
				}
				r, err := strconv.ParseUint(string(hex), 16, 32)
				if err != nil {
					jp.fail("invalid \\u escape")
				}
				var buf [4]byte
				n := utf8.EncodeRune(buf[:], rune(r))
				cur = append(cur, buf[:n]...)
			default:
				jp.fail("invalid escape \\%c", e)
			}
			jp.next()
		case c < 0x20:
			jp.fail("invalid control character in string literal")
		default:
			cur = append(cur, c)
			jp.next()
		}
	}
}

// parseJSON: rope -> tree, or the reason why it is not one JSON value.
func (p *Path) parseJSON(s StrV, site ssa.Instruction) (jv *JV, why string) {
	jp := &jparser{p: p, s: normStr(s), site: site}
	defer func() {
		if r := recover(); r != nil {
			if e, ok := r.(jsonSyntaxErr); ok {
				jv, why = nil, e.msg
				return
			}
			panic(r)
		}
	}()
	v := jp.value()
	jp.skipWS()
	if !jp.eof() {
		jp.fail("invalid character after top-level value")
	}
	return v, ""
}

// ---------------------------------------------------------------- encoding

var rfc3339NanoID = layoutID("2006-01-02T15:04:05.999999999Z07:00")

func typeFullName(t types.Type) string {
	if t == nil {
		return ""
	}
	if n, ok := types.Unalias(t).(*types.Named); ok && n.Obj().Pkg() != nil {
		return n.Obj().Pkg().Path() + "." + n.Obj().Name()
	}
	return ""
}

// jsonEncode: Go value -> JSON tree; errv non-nil when encoding fails.
func (p *Path) jsonEncode(v Value, t types.Type, site ssa.Instruction) (*JV, Value) {
	if iv, ok := v.(IfaceV); ok {
		if iv.T == nil {
			return jNull(), nil
		}
		return p.jsonEncode(iv.V, iv.T, site)
	}
	// Marshaler (generated types, Nullable[T], time.Time, RawMessage)
	switch typeFullName(t) {
	case "time.Time":
		tv := v.(OpaqueV)
		return &JV{Kind: JStr, S: p.opaqueStr("TimeFormat_"+rfc3339NanoID, []Value{tv}, 40)}, nil
	case "encoding/json.RawMessage":
		if isNilValue(v) {
			return jNull(), nil
		}
		j, why := p.parseJSON(p.bytesAsStr(v), site)
		if j == nil {
			return nil, p.mkErr(constStr("json: error calling MarshalJSON for type json.RawMessage: "+why), nil)
		}
		return j, nil
	}
	if pt, ok := t.Underlying().(*types.Pointer); ok {
		pv := v.(PtrV)
		if pv.Obj == nil {
			return jNull(), nil
		}
		if fn := p.lookupMethod(t, nil, "MarshalJSON"); fn != nil {
			return p.callMarshaler(fn, v, t, site)
		}
		return p.jsonEncode(p.load(pv, site), pt.Elem(), site)
	}
	if fn := p.lookupMethod(t, nil, "MarshalJSON"); fn != nil {
		return p.callMarshaler(fn, v, t, site)
	}
	switch u := t.Underlying().(type) {
	case *types.Basic:
		switch x := v.(type) {
		case StrV:
			return &JV{Kind: JStr, S: x}, nil
		case IntV:
			return &JV{Kind: JNum, IsInt: true, I: x.T}, nil
		case BoolV:
			return &JV{Kind: JBool, B: x.T}, nil
		case FloatV:
			if x.Prov != nil && x.Prov.Fn == "itof" {
				return &JV{Kind: JNum, IsInt: true, I: x.Prov.Args[0].(IntV).T}, nil
			}
			if x.Conc && x.F == float64(int64(x.F)) && x.F > -1e15 && x.F < 1e15 {
				return &JV{Kind: JNum, IsInt: true, I: smt.Int(int64(x.F))}, nil
			}
			return &JV{Kind: JNum, F: x}, nil
		}
	case *types.Slice:
		switch x := v.(type) {
		case BytesV:
			if x.Nil {
				return jNull(), nil
			}
			return &JV{Kind: JStr, S: p.opaqueStr("base64", []Value{x.S}, x.S.MaxLen()*2+4)}, nil
		case SliceV:
			if x.Arr == nil {
				return jNull(), nil
			}
			if eb, ok := u.Elem().Underlying().(*types.Basic); ok && eb.Kind() == types.Uint8 {
				return &JV{Kind: JStr, S: p.opaqueStr("base64", []Value{p.sliceToStr(x)}, x.Len*2+4)}, nil
			}
			arr := &JV{Kind: JArr}
			for i := 0; i < x.Len; i++ {
				e, errv := p.jsonEncode(getPath(x.Arr.Val, []int{x.Off + i}, p), u.Elem(), site)
				if errv != nil {
					return nil, errv
				}
				arr.Elems = append(arr.Elems, e)
			}
			return arr, nil
		}
	case *types.Map:
		mv := v.(MapV)
		if mv.M == nil {
			return jNull(), nil
		}
		obj := &JV{Kind: JObj}
		ents := append([]*MapEntry{}, mv.M.Entries...)
		allConst := true
		for _, e := range ents {
			if ks, ok := e.K.(StrV); !ok || !ks.IsConst() {
				allConst = false
			}
		}
		if allConst {
			sort.SliceStable(ents, func(i, j int) bool { return ents[i].K.(StrV).ConstString() < ents[j].K.(StrV).ConstString() })
		}
		for _, e := range ents {
			ks, ok := e.K.(StrV)
			if !ok {
				p.unsupported("json: map key of type %T", e.K)
			}
			ev, errv := p.jsonEncode(e.V, u.Elem(), site)
			if errv != nil {
				return nil, errv
			}
			obj.Keys = append(obj.Keys, ks)
			obj.Vals = append(obj.Vals, ev)
		}
		return obj, nil
	case *types.Struct:
		sv, ok := v.(StructV)
		if !ok {
			p.unsupported("json encode of opaque struct %s", t)
		}
		obj := &JV{Kind: JObj}
		for i := 0; i < u.NumFields(); i++ {
			f := u.Field(i)
			if !f.Exported() {
				continue
			}
			name, omitEmpty, skip := jsonFieldName(f.Name(), u.Tag(i))
			if skip {
				continue
			}
			if omitEmpty && isEmptyJSONValue(sv.F[i]) {
				continue
			}
			ev, errv := p.jsonEncode(sv.F[i], f.Type(), site)
			if errv != nil {
				return nil, errv
			}
			obj.Keys = append(obj.Keys, constStr(name))
			obj.Vals = append(obj.Vals, ev)
		}
		return obj, nil
	case *types.Interface:
		return jNull(), nil
	}
	p.unsupported("json encode of %s (%T)", t, v)
	return nil, nil
}

func isEmptyJSONValue(v Value) bool {
	switch x := v.(type) {
	case StrV:
		return len(x.A) == 0
	case IntV:
		c, ok := x.T.Int64()
		return ok && c == 0
	case BoolV:
		return x.T.IsFalse()
	}
	return isNilValue(v)
}

func jsonFieldName(goName, tag string) (name string, omitEmpty, skip bool) {
	name = goName
	st := reflectTagGet(tag, "json")
	if st == "-" {
		return "", false, true
	}
	parts := strings.Split(st, ",")
	if parts[0] != "" {
		name = parts[0]
	}
	for _, o := range parts[1:] {
		if o == "omitempty" {
			omitEmpty = true
		}
	}
	return
}

func reflectTagGet(tag, key string) string {
	for tag != "" {
		i := 0
		for i < len(tag) && tag[i] == ' ' {
			i++
		}
		tag = tag[i:]
		if tag == "" {
			break
		}
		i = 0
		for i < len(tag) && tag[i] > ' ' && tag[i] != ':' && tag[i] != '"' {
			i++
		}
		if i == 0 || i+1 >= len(tag) || tag[i] != ':' || tag[i+1] != '"' {
			break
		}
		name := tag[:i]
		tag = tag[i+1:]
		i = 1
		for i < len(tag) && tag[i] != '"' {
			if tag[i] == '\\' {
				i++
			}
			i++
		}
		if i >= len(tag) {
			break
		}
		q := tag[:i+1]
		tag = tag[i+1:]
		if key == name {
			v, err := strconv.Unquote(q)
			if err != nil {
				return ""
			}
			return v
		}
	}
	return ""
}

func (p *Path) callMarshaler(fn *ssa.Function, v Value, t types.Type, site ssa.Instruction) (*JV, Value) {
	r := p.callFn(fn, []Value{v}, nil, site)
	tv, ok := r.(TupleV)
	if !ok {
		p.unsupported("MarshalJSON returned %T", r)
	}
	if errv, _ := tv.E[1].(IfaceV); errv.T != nil {
		return nil, p.mkErr(strConcat(constStr("json: error calling MarshalJSON for type "+t.String()+": "), p.fmtValue(errv, 'v', site)), errv)
	}
	out := p.bytesAsStr(tv.E[0])
	j, why := p.parseJSON(out, site)
	if j == nil {
		return nil, p.mkErr(constStr("json: error calling MarshalJSON for type "+t.String()+": "+why), nil)
	}
	return j, nil
}

// ---------------------------------------------------------------- decoding

func (p *Path) jsonTypeErr(kind string, t types.Type) Value {
	return p.mkErr(constStr("json: cannot unmarshal "+kind+" into Go value of type "+t.String()), nil)
}

func jkindName(j *JV) string {
	switch j.Kind {
	case JBool:
		return "bool"
	case JNum:
		return "number"
	case JStr:
		return "string"
	case JArr:
		return "array"
	case JObj:
		return "object"
	}
	return "value"
}

// resolveSym forks a symbolic-kind value into a concrete-kind one.
func (p *Path) resolveSym(j *JV) *JV {
	if j.Kind != JSym {
		return j
	}
	for k := 0; k < 6; k++ {
		if p.branch(smt.Eq(j.K, smt.Int(int64(k)))) {
			return symAsKind(j, k)
		}
	}
	return symAsKind(j, 6)
}

func symAsKind(j *JV, k int) *JV {
	switch k {
	case 0:
		return jNull()
	case 1:
		return &JV{Kind: JBool, B: j.SymB}
	case 2:
		return &JV{Kind: JNum, IsInt: true, I: j.SymI, F32: j.F32}
	case 3:
		fb := 0
		if j.F32 {
			fb = 32
		}
		return &JV{Kind: JNum, F: FloatV{Tok: j.SymI, Bits: fb, Prov: &Prov{Fn: "symfrac"}}, F32: j.F32}
	case 4:
		return &JV{Kind: JStr, S: j.SymS}
	case 5:
		return &JV{Kind: JArr}
	}
	return &JV{Kind: JObj}
}

// jsonDecode stores j into the location ptr (of element type t).
func (p *Path) jsonDecode(j *JV, ptr PtrV, t types.Type, site ssa.Instruction) Value {
	// Unmarshaler on *T
	pt := types.NewPointer(t)
	switch typeFullName(t) {
	case "encoding/json.RawMessage":
		p.store(ptr, BytesV{S: p.jsonRope(j)}, site)
		return nil
	case "time.Time":
		j = p.resolveSym(j)
		if j.Kind == JNull {
			return nil
		}
		if j.Kind != JStr {
			return p.mkErr(constStr("Time.UnmarshalJSON: input is not a JSON string"), nil)
		}
		r := p.E.intrinsics["time.Parse"](p, []Value{constStr("2006-01-02T15:04:05Z07:00"), j.S}, site).(TupleV)
		if e := r.E[1].(IfaceV); e.T != nil {
			return e
		}
		p.store(ptr, r.E[0], site)
		return nil
	}
	if fn := p.lookupMethod(pt, nil, "UnmarshalJSON"); fn != nil {
		r := p.callFn(fn, []Value{ptr, BytesV{S: p.jsonRope(j)}}, nil, site)
		if e, _ := r.(IfaceV); e.T != nil {
			return e
		}
		return nil
	}
	switch u := t.Underlying().(type) {
	case *types.Pointer:
		j = p.resolveSym(j)
		if j.Kind == JNull {
			p.store(ptr, PtrV{Type: t}, site)
			return nil
		}
		cur := p.load(ptr, site).(PtrV)
		if cur.Obj == nil {
			o := p.newObj(u.Elem(), p.zero(u.Elem()))
			cur = PtrV{Obj: o, Type: t}
			p.store(ptr, cur, site)
		}
		return p.jsonDecode(j, cur, u.Elem(), site)
	case *types.Basic:
		if j.Kind == JSym {
			// fork only on what this target distinguishes: the fitting kind(s), null, anything else
			want := []int{}
			switch {
			case u.Info()&types.IsString != 0:
				want = []int{4}
			case u.Info()&types.IsBoolean != 0:
				want = []int{1}
			case u.Info()&types.IsInteger != 0:
				want = []int{2}
			case u.Info()&types.IsFloat != 0:
				want = []int{2, 3}
			}
			resolved := false
			for _, k := range want {
				if p.branch(smt.Eq(j.K, smt.Int(int64(k)))) {
					j = symAsKind(j, k)
					resolved = true
					break
				}
			}
			if !resolved {
				if p.branch(smt.Eq(j.K, smt.Int(0))) {
					return nil
				}
				return p.jsonTypeErr("value of another JSON type", t)
			}
		}
		if j.Kind == JNull {
			return nil
		}
		switch {
		case u.Info()&types.IsString != 0:
			if j.Kind != JStr {
				return p.jsonTypeErr(jkindName(j), t)
			}
			p.store(ptr, j.S, site)
			return nil
		case u.Info()&types.IsBoolean != 0:
			if j.Kind != JBool {
				return p.jsonTypeErr(jkindName(j), t)
			}
			p.store(ptr, BoolV{T: j.B}, site)
			return nil
		case u.Info()&types.IsInteger != 0:
			if j.Kind != JNum {
				return p.jsonTypeErr(jkindName(j), t)
			}
			if !j.IsInt {
				return p.jsonTypeErr("number (non-integer)", t)
			}
			bits, signed, _ := intWidth(t)
			lo, hi := smt.Int(0), smt.BigInt(pow2(bits))
			if signed {
				lo = smt.Neg(smt.BigInt(pow2(bits - 1)))
				hi = smt.BigInt(pow2(bits - 1))
			}
			if !p.branch(smt.And(smt.Ge(j.I, lo), smt.Lt(j.I, hi))) {
				return p.jsonTypeErr("number (out of range)", t)
			}
			p.store(ptr, IntV{T: j.I}, site)
			return nil
		case u.Info()&types.IsFloat != 0:
			if j.Kind != JNum {
				return p.jsonTypeErr(jkindName(j), t)
			}
			var fv FloatV
			if j.IsInt {
				if c, ok := j.I.Int64(); ok {
					fv = FloatV{Conc: true, F: float64(c)}
				} else {
					p.declareFun("f_itof", []smt.Sort{smt.SInt}, smt.SInt)
					fv = FloatV{Tok: smt.App("f_itof", smt.SInt, j.I), Prov: &Prov{Fn: "itof", Args: []Value{IntV{T: j.I}}}}
				}
			} else {
				fv = j.F
			}
			if j.F32 {
				fv.Bits = 32
			}
			if u.Kind() == types.Float32 && !fv.Conc {
				fv = p.narrow32(fv)
			} else if u.Kind() == types.Float32 {
				fv = FloatV{Conc: true, F: float64(float32(fv.F))}
			}
			p.store(ptr, fv, site)
			return nil
		}
	case *types.Slice:
		j = p.resolveSym(j)
		if j.Kind == JNull {
			p.store(ptr, p.zero(t), site)
			return nil
		}
		if eb, ok := u.Elem().Underlying().(*types.Basic); ok && eb.Kind() == types.Uint8 {
			if j.Kind != JStr {
				return p.jsonTypeErr(jkindName(j), t)
			}
			if len(j.S.A) == 1 && j.S.A[0].Prov != nil && j.S.A[0].Prov.Fn == "base64" {
				p.store(ptr, BytesV{S: j.S.A[0].Prov.Args[0].(StrV)}, site)
				return nil
			}
			p.store(ptr, BytesV{S: p.opaqueStr("unbase64", []Value{j.S}, j.S.MaxLen())}, site)
			return nil
		}
		if j.Kind != JArr {
			return p.jsonTypeErr(jkindName(j), t)
		}
		es := make([]Value, len(j.Elems))
		for i := range es {
			es[i] = p.zero(u.Elem())
		}
		o := p.newObj(nil, ArrayV{E: es})
		for i, e := range j.Elems {
			if errv := p.jsonDecode(e, PtrV{Obj: o, Path: []int{i}}, u.Elem(), site); errv != nil {
				return errv
			}
		}
		p.store(ptr, SliceV{Arr: o, Len: len(es), Cap: len(es)}, site)
		return nil
	case *types.Map:
		j = p.resolveSym(j)
		if j.Kind == JNull {
			return nil
		}
		if j.Kind != JObj {
			return p.jsonTypeErr(jkindName(j), t)
		}
		mv := p.load(ptr, site).(MapV)
		if mv.M == nil {
			p.nobj++
			mv = MapV{M: &MapObj{ID: p.nobj}}
			p.store(ptr, mv, site)
		}
		for i, k := range j.Keys {
			o := p.newObj(u.Elem(), p.zero(u.Elem()))
			if errv := p.jsonDecode(j.Vals[i], PtrV{Obj: o}, u.Elem(), site); errv != nil {
				return errv
			}
			p.mapStore(mv, k, o.Val)
		}
		return nil
	case *types.Struct:
		j = p.resolveSym(j)
		if j.Kind == JNull {
			return nil
		}
		if j.Kind != JObj {
			return p.jsonTypeErr(jkindName(j), t)
		}
		for i, k := range j.Keys {
			if !k.IsConst() {
				p.unsupported("json decode into struct with symbolic key")
			}
			for fi := 0; fi < u.NumFields(); fi++ {
				f := u.Field(fi)
				if !f.Exported() {
					continue
				}
				name, _, skip := jsonFieldName(f.Name(), u.Tag(fi))
				if skip || !strings.EqualFold(name, k.ConstString()) {
					continue
				}
				np := append(append([]int{}, ptr.Path...), fi)
				if errv := p.jsonDecode(j.Vals[i], PtrV{Obj: ptr.Obj, Path: np}, f.Type(), site); errv != nil {
					return errv
				}
			}
		}
		return nil
	case *types.Interface:
		j = p.resolveSym(j)
		p.store(ptr, p.jsonToAny(j), site)
		return nil
	}
	p.unsupported("json decode into %s", t)
	return nil
}

func (p *Path) jsonToAny(j *JV) Value {
	basic := func(k types.BasicKind) types.Type { return types.Typ[k] }
	switch j.Kind {
	case JNull:
		return IfaceV{}
	case JBool:
		return IfaceV{T: basic(types.Bool), V: BoolV{T: j.B}}
	case JStr:
		return IfaceV{T: basic(types.String), V: j.S}
	case JNum:
		if j.IsInt {
			if c, ok := j.I.Int64(); ok {
				return IfaceV{T: basic(types.Float64), V: FloatV{Conc: true, F: float64(c)}}
			}
			p.declareFun("f_itof", []smt.Sort{smt.SInt}, smt.SInt)
			return IfaceV{T: basic(types.Float64), V: FloatV{Tok: smt.App("f_itof", smt.SInt, j.I), Prov: &Prov{Fn: "itof", Args: []Value{IntV{T: j.I}}}}}
		}
		return IfaceV{T: basic(types.Float64), V: j.F}
	}
	anyT := types.NewInterfaceType(nil, nil)
	switch j.Kind {
	case JArr:
		es := make([]Value, len(j.Elems))
		for i, e := range j.Elems {
			es[i] = p.jsonToAny(p.resolveSym(e))
		}
		o := p.newObj(nil, ArrayV{E: es})
		return IfaceV{T: types.NewSlice(anyT), V: SliceV{Arr: o, Len: len(es), Cap: len(es)}}
	case JObj:
		p.nobj++
		m := &MapObj{ID: p.nobj}
		mv := MapV{M: m}
		for i, k := range j.Keys {
			p.mapStore(mv, k, p.jsonToAny(p.resolveSym(j.Vals[i])))
		}
		return IfaceV{T: types.NewMap(types.Typ[types.String], anyT), V: mv}
	}
	p.unsupported("json decode of %s into interface{}", jkindName(j))
	return nil
}
