package sym

import (
	"go/token"
	"go/types"
	"math/big"

	"gosym/smt"

	"golang.org/x/tools/go/ssa"
)

func intWidth(t types.Type) (bits int, signed bool, ok bool) {
	b, isB := t.Underlying().(*types.Basic)
	if !isB || b.Info()&types.IsInteger == 0 {
		return 0, false, false
	}
	switch b.Kind() {
	case types.Int8:
		return 8, true, true
	case types.Int16:
		return 16, true, true
	case types.Int32, types.UntypedRune:
		return 32, true, true
	case types.Int, types.Int64, types.UntypedInt:
		return 64, true, true
	case types.Uint8:
		return 8, false, true
	case types.Uint16:
		return 16, false, true
	case types.Uint32:
		return 32, false, true
	case types.Uint, types.Uint64, types.Uintptr:
		return 64, false, true
	}
	return 64, true, true
}

func pow2(n int) *big.Int { return new(big.Int).Lsh(big.NewInt(1), uint(n)) }

// wrapInt normalises v into the range of integer type t (two's complement).
func (p *Path) wrapInt(v IntV, t types.Type) IntV {
	bits, signed, ok := intWidth(t)
	if !ok {
		return v
	}
	if v.T.IsInt() {
		m := pow2(bits)
		x := new(big.Int).Mod(v.T.I, m)
		if signed && x.Cmp(pow2(bits-1)) >= 0 {
			x.Sub(x, m)
		}
		r := IntV{T: smt.BigInt(x)}
		r.Small = x.IsInt64() && x.Int64() > -(1<<40) && x.Int64() < (1<<40)
		return r
	}
	if bits == 64 && signed && v.Small {
		return v
	}
	m := smt.BigInt(pow2(bits))
	if signed {
		h := smt.BigInt(pow2(bits - 1))
		// ((x + 2^(k-1)) mod 2^k) - 2^(k-1)
		return IntV{T: smt.Sub(smt.Mod(smt.Add(v.T, h), m), h), Small: bits < 40}
	}
	return IntV{T: smt.Mod(v.T, m), Small: bits < 40}
}

func (p *Path) binop(op token.Token, x, y Value, xt types.Type, site ssa.Instruction) Value {
	switch xv := x.(type) {
	case IntV:
		yv, ok := y.(IntV)
		if !ok {
			p.unsupported("binop %s int with %T", op, y)
		}
		return p.intBinop(op, xv, yv, xt, site)
	case BoolV:
		yv := y.(BoolV)
		switch op {
		case token.EQL:
			return BoolV{T: smt.Eq(xv.T, yv.T)}
		case token.NEQ:
			return BoolV{T: smt.Not(smt.Eq(xv.T, yv.T))}
		case token.AND, token.LAND:
			return BoolV{T: smt.And(xv.T, yv.T)}
		case token.OR, token.LOR:
			return BoolV{T: smt.Or(xv.T, yv.T)}
		}
	case StrV:
		yv, ok := y.(StrV)
		if !ok {
			p.unsupported("binop %s string with %T", op, y)
		}
		switch op {
		case token.ADD:
			return strConcat(xv, yv)
		case token.EQL:
			return BoolV{T: p.strEq(xv, yv)}
		case token.NEQ:
			return BoolV{T: smt.Not(p.strEq(xv, yv))}
		case token.LSS, token.LEQ, token.GTR, token.GEQ:
			if xv.IsConst() && yv.IsConst() {
				a, b := xv.ConstString(), yv.ConstString()
				var r bool
				switch op {
				case token.LSS:
					r = a < b
				case token.LEQ:
					r = a <= b
				case token.GTR:
					r = a > b
				case token.GEQ:
					r = a >= b
				}
				return mkBool(r)
			}
			p.unsupported("ordered comparison of symbolic strings")
		}
	case FloatV:
		yv := y.(FloatV)
		if xv.Conc && yv.Conc {
			switch op {
			case token.ADD:
				return FloatV{Conc: true, F: xv.F + yv.F}
			case token.SUB:
				return FloatV{Conc: true, F: xv.F - yv.F}
			case token.MUL:
				return FloatV{Conc: true, F: xv.F * yv.F}
			case token.QUO:
				return FloatV{Conc: true, F: xv.F / yv.F}
			case token.EQL:
				return mkBool(xv.F == yv.F)
			case token.NEQ:
				return mkBool(xv.F != yv.F)
			case token.LSS:
				return mkBool(xv.F < yv.F)
			case token.LEQ:
				return mkBool(xv.F <= yv.F)
			case token.GTR:
				return mkBool(xv.F > yv.F)
			case token.GEQ:
				return mkBool(xv.F >= yv.F)
			}
		}
		if op == token.EQL || op == token.NEQ {
			// opaque floats: equality of tokens (NaN excluded by stub contract)
			t := smt.Eq(p.floatTok(xv), p.floatTok(yv))
			if op == token.NEQ {
				t = smt.Not(t)
			}
			return BoolV{T: t}
		}
		p.unsupported("float op %s on symbolic floats", op)
	}
	// generic equality
	if op == token.EQL || op == token.NEQ {
		t := p.valEq(x, y)
		if op == token.NEQ {
			t = smt.Not(t)
		}
		return BoolV{T: t}
	}
	p.unsupported("binop %s on %T,%T at %s", op, x, y, p.posOf(site))
	return nil
}

func (p *Path) floatTok(f FloatV) *smt.Term {
	if f.Conc {
		return p.floatConstTok(f.F)
	}
	return f.Tok
}

func (p *Path) intBinop(op token.Token, x, y IntV, t types.Type, site ssa.Instruction) Value {
	small := x.Small && y.Small
	switch op {
	case token.ADD:
		return p.wrapInt(IntV{T: smt.Add(x.T, y.T), Small: small}, t)
	case token.SUB:
		r := IntV{T: smt.Sub(x.T, y.T), Small: small}
		if _, signed, _ := intWidth(t); !signed {
			r.Small = false
			r = p.wrapInt(r, t)
			r.Small = small
			return r
		}
		return p.wrapInt(r, t)
	case token.MUL:
		if !x.T.IsInt() && !y.T.IsInt() {
			p.unsupported("symbolic*symbolic multiplication at %s", p.posOf(site))
		}
		return p.wrapInt(IntV{T: smt.Mul(x.T, y.T), Small: small}, t)
	case token.QUO, token.REM:
		if yc, ok := y.T.Int64(); ok && yc > 0 {
			// Go truncated division vs SMT euclidean: equal for x>=0; for x<0 adjust.
			if xc, ok := x.T.Int64(); ok {
				if op == token.QUO {
					return mkInt(xc / yc)
				}
				return mkInt(xc % yc)
			}
			d := smt.Int(yc)
			q := smt.Div(x.T, d)
			m := smt.Mod(x.T, d)
			neg := smt.And(smt.Lt(x.T, smt.Int(0)), smt.Not(smt.Eq(m, smt.Int(0))))
			if op == token.QUO {
				return IntV{T: smt.Ite(neg, smt.Add(q, smt.Int(1)), q), Small: small}
			}
			return IntV{T: smt.Ite(neg, smt.Sub(m, d), m), Small: small}
		}
		if yc, ok := y.T.Int64(); ok && yc == 0 {
			p.goPanicAt(site, "integer divide by zero")
		}
		p.unsupported("division by symbolic/negative value at %s", p.posOf(site))
	case token.EQL:
		return BoolV{T: smt.Eq(x.T, y.T)}
	case token.NEQ:
		return BoolV{T: smt.Not(smt.Eq(x.T, y.T))}
	case token.LSS:
		return BoolV{T: smt.Lt(x.T, y.T)}
	case token.LEQ:
		return BoolV{T: smt.Le(x.T, y.T)}
	case token.GTR:
		return BoolV{T: smt.Gt(x.T, y.T)}
	case token.GEQ:
		return BoolV{T: smt.Ge(x.T, y.T)}
	case token.AND, token.OR, token.XOR, token.SHL, token.SHR, token.AND_NOT:
		xc, ok1 := x.T.Int64()
		yc, ok2 := y.T.Int64()
		if ok1 && ok2 {
			var r int64
			switch op {
			case token.AND:
				r = xc & yc
			case token.OR:
				r = xc | yc
			case token.XOR:
				r = xc ^ yc
			case token.SHL:
				r = xc << uint(yc)
			case token.SHR:
				r = xc >> uint(yc)
			case token.AND_NOT:
				r = xc &^ yc
			}
			return p.wrapInt(mkInt(r), t)
		}
		p.unsupported("bit operation %s on symbolic ints at %s", op, p.posOf(site))
	}
	p.unsupported("int binop %s", op)
	return nil
}

// valEq: Go == on arbitrary comparable values, as a Bool term.
func (p *Path) valEq(x, y Value) *smt.Term {
	switch xv := x.(type) {
	case nil:
		return smt.Bool(isNilValue(y))
	case IntV:
		if yv, ok := y.(IntV); ok {
			return smt.Eq(xv.T, yv.T)
		}
	case BoolV:
		if yv, ok := y.(BoolV); ok {
			return smt.Eq(xv.T, yv.T)
		}
	case StrV:
		if yv, ok := y.(StrV); ok {
			return p.strEq(xv, yv)
		}
	case FloatV:
		if yv, ok := y.(FloatV); ok {
			if xv.Conc && yv.Conc {
				return smt.Bool(xv.F == yv.F)
			}
			return smt.Eq(p.floatTok(xv), p.floatTok(yv))
		}
	case OpaqueV:
		if yv, ok := y.(OpaqueV); ok {
			return smt.Eq(xv.Tok, yv.Tok)
		}
	case PtrV:
		if y == nil {
			return smt.Bool(xv.Obj == nil)
		}
		if yv, ok := y.(PtrV); ok {
			if xv.Obj != yv.Obj || len(xv.Path) != len(yv.Path) {
				return smt.False
			}
			for i := range xv.Path {
				if xv.Path[i] != yv.Path[i] {
					return smt.False
				}
			}
			return smt.True
		}
	case StructV:
		if yv, ok := y.(StructV); ok && len(xv.F) == len(yv.F) {
			t := smt.True
			for i := range xv.F {
				t = smt.And(t, p.valEq(xv.F[i], yv.F[i]))
			}
			return t
		}
	case ArrayV:
		if yv, ok := y.(ArrayV); ok && len(xv.E) == len(yv.E) {
			t := smt.True
			for i := range xv.E {
				t = smt.And(t, p.valEq(xv.E[i], yv.E[i]))
			}
			return t
		}
	case IfaceV:
		if y == nil {
			return smt.Bool(xv.T == nil)
		}
		if yv, ok := y.(IfaceV); ok {
			if xv.T == nil || yv.T == nil {
				return smt.Bool(xv.T == nil && yv.T == nil)
			}
			if ex, ok := xv.V.(ErrV); ok {
				ey, ok2 := yv.V.(ErrV)
				return smt.Bool(ok2 && ex.ID == ey.ID)
			}
			if !types.Identical(xv.T, yv.T) {
				return smt.False
			}
			return p.valEq(xv.V, yv.V)
		}
	case FuncV:
		if y == nil {
			return smt.Bool(xv.Fn == nil && xv.Intr == "")
		}
		if yv, ok := y.(FuncV); ok {
			xn := xv.Fn == nil && xv.Intr == ""
			yn := yv.Fn == nil && yv.Intr == ""
			if xn || yn {
				return smt.Bool(xn && yn)
			}
		}
	case SliceV:
		if y == nil {
			return smt.Bool(xv.Arr == nil)
		}
		if yv, ok := y.(SliceV); ok && (xv.Arr == nil || yv.Arr == nil) {
			return smt.Bool(xv.Arr == nil && yv.Arr == nil)
		}
		if yv, ok := y.(BytesV); ok && yv.Nil {
			return smt.Bool(xv.Arr == nil)
		}
	case BytesV:
		if y == nil {
			return smt.Bool(xv.Nil)
		}
		if yv, ok := y.(SliceV); ok && yv.Arr == nil {
			return smt.Bool(xv.Nil)
		}
		if yv, ok := y.(BytesV); ok && (yv.Nil || xv.Nil) {
			return smt.Bool(xv.Nil && yv.Nil)
		}
	case MapV:
		if y == nil {
			return smt.Bool(xv.M == nil)
		}
		if yv, ok := y.(MapV); ok && (xv.M == nil || yv.M == nil) {
			return smt.Bool(xv.M == nil && yv.M == nil)
		}
	case *CtxV:
		if yv, ok := y.(*CtxV); ok {
			return smt.Bool(xv == yv)
		}
	}
	p.unsupported("equality of %T and %T", x, y)
	return nil
}

func isNilValue(v Value) bool {
	switch x := v.(type) {
	case nil:
		return true
	case PtrV:
		return x.Obj == nil
	case IfaceV:
		return x.T == nil
	case FuncV:
		return x.Fn == nil && x.Intr == ""
	case SliceV:
		return x.Arr == nil
	case BytesV:
		return x.Nil
	case MapV:
		return x.M == nil
	}
	return false
}

// ---------------------------------------------------------------- conversions

func (p *Path) convert(x Value, from, to types.Type, site ssa.Instruction) Value {
	fu, tu := from.Underlying(), to.Underlying()
	switch tb := tu.(type) {
	case *types.Basic:
		switch {
		case tb.Info()&types.IsInteger != 0:
			switch xv := x.(type) {
			case IntV:
				r := xv
				_, fsigned, _ := intWidth(from)
				fbits, _, _ := intWidth(from)
				tbits, tsigned, _ := intWidth(to)
				if tbits > fbits && (fsigned == tsigned || !fsigned) {
					return r // widening
				}
				if tbits == fbits && fsigned == tsigned {
					return r
				}
				if r.Small && tbits == 64 {
					if tsigned {
						return r
					}
					// int -> uint of a small value: negative wraps
					r.Small = false
					w := p.wrapInt(r, to)
					return w
				}
				r.Small = false
				return p.wrapInt(r, to)
			case FloatV:
				if xv.Conc {
					return p.wrapInt(mkInt(int64(xv.F)), to)
				}
				p.unsupported("float->int of symbolic float")
			}
		case tb.Info()&types.IsFloat != 0:
			switch xv := x.(type) {
			case FloatV:
				if tb.Kind() == types.Float32 {
					if xv.Conc {
						return FloatV{Conc: true, F: float64(float32(xv.F))}
					}
					return p.narrow32(xv)
				}
				// float32 -> float64 is exact: same value
				return xv
			case IntV:
				if c, ok := xv.T.Int64(); ok {
					return FloatV{Conc: true, F: float64(c)}
				}
				p.unsupported("int->float of symbolic int")
			}
		case tb.Info()&types.IsString != 0:
			switch xv := x.(type) {
			case StrV:
				return xv
			case BytesV:
				return xv.S
			case IntV: // string(rune)
				if c, ok := xv.T.Int64(); ok {
					return constStr(string(rune(c)))
				}
				// ASCII-only model
				p.obligationAssume(smt.And(smt.Ge(xv.T, smt.Int(0)), smt.Lt(xv.T, smt.Int(128))), site, "string(rune) of non-ASCII rune")
				return StrV{A: []Atom{{Kind: ABytes, Bs: []*smt.Term{xv.T}}}}
			case SliceV:
				// []byte or []rune with concrete length -> ABytes
				var bs []*smt.Term
				isRune := false
				if st, ok := fu.(*types.Slice); ok {
					if eb, ok := st.Elem().Underlying().(*types.Basic); ok && eb.Kind() == types.Int32 {
						isRune = true
					}
				}
				for i := 0; i < xv.Len; i++ {
					e := getPath(xv.Arr.Val, []int{xv.Off + i}, p).(IntV)
					if isRune && !e.T.IsInt() {
						p.obligationAssume(smt.And(smt.Ge(e.T, smt.Int(0)), smt.Lt(e.T, smt.Int(128))), site, "string([]rune) with non-ASCII rune")
					}
					if isRune && e.T.IsInt() {
						c, _ := e.T.Int64()
						if c >= 128 {
							p.unsupported("string([]rune) with concrete non-ASCII rune")
						}
					}
					bs = append(bs, e.T)
				}
				if len(bs) == 0 {
					return StrV{}
				}
				return normStr(StrV{A: []Atom{{Kind: ABytes, Bs: bs}}})
			}
		}
	case *types.Slice:
		eb, _ := tb.Elem().Underlying().(*types.Basic)
		switch xv := x.(type) {
		case StrV:
			if eb != nil && eb.Kind() == types.Uint8 {
				return BytesV{S: xv}
			}
			if eb != nil && eb.Kind() == types.Int32 { // []rune(s), ASCII model
				n := p.concretize(xv.LenTerm(), "[]rune(s) length", site)
				es := make([]Value, n)
				for i := 0; i < n; i++ {
					b := p.byteAt(xv, smt.Int(int64(i)))
					if !b.IsInt() {
						p.obligationAssume(smt.Lt(b, smt.Int(128)), site, "[]rune(s) of non-ASCII string")
					} else if c, _ := b.Int64(); c >= 128 {
						p.unsupported("[]rune of concrete non-ASCII string")
					}
					es[i] = IntV{T: b, Small: true}
				}
				o := p.newObj(nil, ArrayV{E: es})
				return SliceV{Arr: o, Len: n, Cap: n}
			}
		case SliceV, BytesV:
			return x
		}
	case *types.Pointer, *types.Signature, *types.Map, *types.Struct, *types.Interface:
		return x
	}
	p.unsupported("convert %s -> %s (%T) at %s", from, to, x, p.posOf(site))
	return nil
}

// obligationAssume: the engine's model only covers `ok`; if ¬ok is feasible the
// path is outside the model => unsupported (inconclusive), never silently dropped.
func (p *Path) obligationAssume(ok *smt.Term, site ssa.Instruction, what string) {
	if ok.IsTrue() {
		return
	}
	if p.feasible(smt.Not(ok)) {
		p.unsupported("%s (outside the engine's model) at %s", what, p.posOf(site))
	}
	p.assert(ok)
}

// ---------------------------------------------------------------- maps

func (p *Path) mapLookup(m MapV, k Value) (Value, bool) {
	if m.M == nil {
		return nil, false
	}
	p.noteMapRead(m.M)
	for _, e := range m.M.Entries {
		eq := p.valEq(e.K, k)
		if p.branch(eq) {
			if e.Stale {
				p.noteStaleHit(m.M)
			}
			return e.V, true
		}
	}
	return nil, false
}

func (p *Path) mapStore(m MapV, k, v Value) {
	for _, e := range m.M.Entries {
		if p.branch(p.valEq(e.K, k)) {
			e.V = v
			e.Stale = false
			return
		}
	}
	m.M.Entries = append(m.M.Entries, &MapEntry{K: k, V: v})
}

func (p *Path) mapDelete(m MapV, k Value) {
	if m.M == nil {
		return
	}
	for i, e := range m.M.Entries {
		if p.branch(p.valEq(e.K, k)) {
			ne := make([]*MapEntry, 0, len(m.M.Entries)-1)
			ne = append(ne, m.M.Entries[:i]...)
			ne = append(ne, m.M.Entries[i+1:]...)
			m.M.Entries = ne
			return
		}
	}
}

// ---------------------------------------------------------------- range

func (p *Path) mkRange(x Value, site ssa.Instruction) Value {
	switch xv := x.(type) {
	case MapV:
		it := &RangeIter{IsMap: true}
		if xv.M != nil {
			p.noteMapRead(xv.M)
			n := len(xv.M.Entries)
			idx := make([]int, n)
			for i := range idx {
				idx[i] = i
			}
			if p.side["permute"] == "one" && n > 1 {
				// one designated site: the first map range for which the schedule says
				// "here" gets an arbitrary order, every other range the canonical one
				left, _ := p.side["permuteBudget"].(int)
				if left <= 0 || p.choose("permute-this-range", 2) == 0 {
					goto canonical
				}
				p.side["permuteBudget"] = left - 1
				p.side["permuteHere"] = true
			}
			if p.permuteOn() && n > 1 {
				// symbolic schedule: the iteration order is a nondeterministic choice
				rest := idx
				var order []int
				for len(rest) > 1 {
					c := p.choose("maporder", len(rest))
					order = append(order, rest[c])
					rest = append(append([]int{}, rest[:c]...), rest[c+1:]...)
				}
				order = append(order, rest[0])
				idx = order
			}
		canonical:
			p.side["permuteHere"] = false
			it.Src = xv.M
			for _, i := range idx {
				it.Keys = append(it.Keys, xv.M.Entries[i].K)
				it.Vals = append(it.Vals, xv.M.Entries[i].V)
				it.Stale = append(it.Stale, xv.M.Entries[i].Stale)
			}
		}
		return it
	case StrV:
		return &RangeIter{Str: xv}
	}
	p.unsupported("range over %T", x)
	return nil
}

func (p *Path) rangeNext(it *RangeIter, in *ssa.Next) Value {
	if it.IsMap {
		if it.Pos >= len(it.Keys) {
			return TupleV{E: []Value{mkBool(false), nil, nil}}
		}
		k, v := it.Keys[it.Pos], it.Vals[it.Pos]
		if it.Pos < len(it.Stale) && it.Stale[it.Pos] && it.Src != nil && nextValueUsed(in) {
			p.noteStaleHit(it.Src)
		}
		it.Pos++
		return TupleV{E: []Value{mkBool(true), k, v}}
	}
	// string: ASCII model, one rune per byte
	n := it.Str.LenTerm()
	pos := smt.Int(int64(it.Pos))
	if !p.branch(smt.Lt(pos, n)) {
		return TupleV{E: []Value{mkBool(false), mkInt(0), mkInt(0)}}
	}
	b := p.byteAt(it.Str, pos)
	if b.IsInt() {
		if c, _ := b.Int64(); c >= 128 {
			p.unsupported("range over concrete non-ASCII string")
		}
	} else {
		p.obligationAssume(smt.Lt(b, smt.Int(128)), in, "range over non-ASCII string")
	}
	r := TupleV{E: []Value{mkBool(true), mkInt(int64(it.Pos)), IntV{T: b, Small: true}}}
	it.Pos++
	return r
}

// narrow32: float64 -> float32 conversion of an opaque float. A value already
// known to be float32-representable is unchanged.
func (p *Path) narrow32(x FloatV) FloatV {
	if x.Bits == 32 {
		return x
	}
	r := p.floatStub("f64to32", x)
	r.Bits = 32
	return r
}

func (p *Path) permuteOn() bool {
	if v, ok := p.side["permute"]; ok {
		if b, isB := v.(bool); isB {
			return b
		}
		// "one": permute exactly the designated range(s)
		designated, _ := p.side["permuteHere"].(bool)
		return designated
	}
	return p.E.Cfg.PermuteMaps
}

// nextValueUsed: the range statement binds the map VALUE (not only the key).
func nextValueUsed(in *ssa.Next) bool {
	if in == nil || in.Referrers() == nil {
		return true
	}
	for _, r := range *in.Referrers() {
		if ex, ok := r.(*ssa.Extract); ok && ex.Index == 2 {
			if rr := ex.Referrers(); rr != nil && len(*rr) > 0 {
				return true
			}
		}
	}
	return false
}

type pooledState struct {
	hit  bool
	pool string
}

// noteStaleHit: this request read an entry that a previous user of the pooled map left behind.
func (p *Path) noteStaleHit(m *MapObj) {
	if st := p.pooledMaps[m]; st != nil {
		st.hit = true
	}
}
