package sym

import (
	"os"
	"fmt"
	"go/types"
	"math/big"
	"sort"
	"strings"
	"sync"
	"time"

	"gosym/smt"

	"golang.org/x/tools/go/ssa"
)

type Config struct {
	Unwind        int // max visits of one block per frame (unwinding assertion)
	MaxDepth      int
	MaxSteps      int
	ConcretizeMax int
	PermuteMaps   bool
	TimeoutMs     int
	Workers       int
	MaxPaths      int
	MaxPathsPerHarness int // 0 = no per-harness budget
	WriteMonitor  bool // C20: report stores into pre-existing objects
	ArbNarrow     bool // vrt.Arbitrary: collections of at most one item
	Witnesses     bool // keep the inputs of one completed path per harness (conformance replay)
	SharedExplicit bool // C20: only globals and what vrt.Shared marks count as pre-existing (shared) state
	StopOnFirst   bool
	ArbWide       bool // vrt.Arbitrary: collections of up to 2 entries one level deeper
}

func DefaultConfig() Config {
	return Config{Unwind: 80, MaxDepth: 200, MaxSteps: 2000000, ConcretizeMax: 64, TimeoutMs: 20000, Workers: 8, MaxPaths: 1000000}
}

type intrFn func(p *Path, args []Value, site ssa.Instruction) Value

type Engine struct {
	Prog        *ssa.Program
	TargetPaths map[string]bool // package paths whose function bodies are executed
	TargetPrefixes []string     // ... and every package path with one of these prefixes
	Transparent map[string]bool // foreign functions whose SSA body is executed
	Cfg         Config
	intrinsics  map[string]intrFn
	InitPkgs    []*ssa.Package // packages whose init() runs at the start of every path
	errT        types.Type
	mu          sync.Mutex
}

// Input is one named nondeterministic value of a harness.
type Input struct {
	Name string
	Kind string // "string","int","bool","choose"
	Arr  *smt.Term
	Len  *smt.Term
	Max  int
	T    *smt.Term
	Conc int // choose: the concrete decision on this path
}

type Region struct {
	ID   string
	Cond *smt.Term
}

type Finding struct {
	Kind    string                 `json:"kind"` // "assert","panic"
	Msg     string                 `json:"msg"`
	Pos     string                 `json:"pos"`
	Known   string                 `json:"known,omitempty"` // region id if inside a known-finding region
	Model   map[string]interface{} `json:"model,omitempty"`
	Harness string                 `json:"harness"`
	Trace   []int                  `json:"decisions,omitempty"`
}

type PathResult struct {
	Outcome   string // "done","assume","panic","violation","unsupported","unwind","infeasible"
	Msg       string
	Findings  []Finding
	Asserts   int // assertions reached
	Proved    int // assertions decided unsat (or concretely true)
	Unknown   int
	Steps     int
	Reached   []string
	Required  []string
	Decisions []int
	Witness   *Witness
}

// Witness: the inputs of one completed path that reached an assertion, for the
// conformance replay (the native build must take the same path and agree).
type Witness struct {
	Model   map[string]interface{}
	Reached []string
	Asserts int
}

type Path struct {
	E        *Engine
	S        *smt.Solver
	harness  string
	prefix   []int
	pos      int
	decided  []int
	newWork  [][]int
	nvar     int
	nobj     int
	nerr     int
	njv      int
	eqDepth  int
	curIns   ssa.Instruction
	globals  map[*ssa.Global]*Object
	sentinels map[string]Value
	inputs   []*Input
	inputCnt map[string]int
	regions  []Region
	steps    int
	depth    int
	entered  bool
	shareNames bool
	staleGiven bool
	pooledMaps map[*MapObj]*pooledState
	eqIgnoreFuncs bool
	eqSeen map[[2]*Object]bool
	released map[*Object]bool // objects handed back to a sync.Pool
	initMode bool
	res      PathResult
	stats    *Stats
	floatToks map[uint64]*smt.Term
	declFuns map[string]bool
	memo     map[string]Value
	writes   []string
	reads    map[*Object]bool
	mreads   map[*MapObj]bool
	// per-path side tables for native stubs
	side map[string]interface{}
	facts map[string]bool
}

// Stats is shared (merged) coverage information.
type Stats struct {
	mu        sync.Mutex
	Fns       map[string]int // function -> #instructions (static)
	Stubs     map[string]int
	Unsupp    map[string]int
	SharedWrites map[string]int
	witnessed map[string]int
}

func NewStats() *Stats {
	return &Stats{Fns: map[string]int{}, Stubs: map[string]int{}, Unsupp: map[string]int{}, SharedWrites: map[string]int{}, witnessed: map[string]int{}}
}

// needWitness: the first completed, assertion-reaching path of a harness keeps its inputs.
func (st *Stats) needWitness(h string) bool {
	st.mu.Lock()
	defer st.mu.Unlock()
	if st.witnessed[h] > 0 && !witnessAll {
		return false
	}
	st.witnessed[h]++
	return true
}

func (p *Path) noteFn(fn *ssa.Function) {
	st := p.stats
	st.mu.Lock()
	if _, ok := st.Fns[fn.String()]; !ok {
		n := 0
		for _, b := range fn.Blocks {
			n += len(b.Instrs)
		}
		st.Fns[fn.String()] = n
	}
	st.mu.Unlock()
}

func (p *Path) noteStub(k string) {
	st := p.stats
	st.mu.Lock()
	st.Stubs[k]++
	st.mu.Unlock()
}

func (p *Path) noteRead(o *Object) {
	if p.E.Cfg.WriteMonitor && p.entered && o.Pre {
		p.reads[o] = true
	}
	if p.released != nil && p.released[o] {
		p.writes = append(p.writes, fmt.Sprintf("use of %s after it was put back into a sync.Pool", objName(o)))
	}
}

// checkReleased: a function result that aliases the storage of a buffer which
// was already handed back to a sync.Pool (any other goroutine may own it now).
func (p *Path) checkReleased(v Value, site ssa.Instruction) {
	if p.released == nil {
		return
	}
	if b, ok := v.(BytesV); ok && b.Alias != nil && p.released[b.Alias] {
		p.writes = append(p.writes, fmt.Sprintf("a function returns bytes that alias %s after it was put back into a sync.Pool at %s", objName(b.Alias), p.posOf(site)))
	}
}

// markShared marks everything reachable from v (not through closures, not
// through harness-owned verif* values) as shared between concurrent requests.
func (p *Path) markShared(v Value, seen map[*Object]bool) {
	switch x := v.(type) {
	case PtrV:
		if x.Obj != nil && !seen[x.Obj] {
			seen[x.Obj] = true
			x.Obj.Pre = true
			p.markShared(x.Obj.Val, seen)
		}
	case StructV:
		for _, f := range x.F {
			p.markShared(f, seen)
		}
	case ArrayV:
		for _, e := range x.E {
			p.markShared(e, seen)
		}
	case SliceV:
		if x.Arr != nil && !seen[x.Arr] {
			seen[x.Arr] = true
			x.Arr.Pre = true
			p.markShared(x.Arr.Val, seen)
		}
	case MapV:
		if x.M != nil {
			x.M.Pre = true
			for _, e := range x.M.Entries {
				p.markShared(e.V, seen)
			}
		}
	case IfaceV:
		if x.T != nil {
			if n, ok := types.Unalias(derefType(x.T)).(*types.Named); ok && strings.HasPrefix(n.Obj().Name(), "verif") {
				return
			}
		}
		p.markShared(x.V, seen)
	}
}

func (p *Path) noteMapRead(m *MapObj) {
	if p.E.Cfg.WriteMonitor && p.entered && m.Pre {
		p.mreads[m] = true
	}
}

func (p *Path) noteWrite(o *Object, site ssa.Instruction) {
	if p.E.Cfg.WriteMonitor && p.entered && !p.initMode {
		// one confinement obligation per executed store (the heap is concrete: decided here;
		// whether the path that carries it is feasible is the solver's part)
		p.res.Asserts++
		if !o.Pre {
			p.res.Proved++
		}
	}
	if p.E.Cfg.WriteMonitor && p.entered && o.Pre && !p.initMode {
		w := fmt.Sprintf("store to pre-existing object %s at %s", objName(o), p.posOf(site))
		p.writes = append(p.writes, w)
	}
}
func (p *Path) noteMapWrite(m *MapObj, site ssa.Instruction) {
	if p.E.Cfg.WriteMonitor && p.entered && !p.initMode {
		p.res.Asserts++
		if !m.Pre {
			p.res.Proved++
		}
	}
	if p.E.Cfg.WriteMonitor && p.entered && m.Pre && !p.initMode {
		p.writes = append(p.writes, fmt.Sprintf("write to pre-existing map #%d at %s", m.ID, p.posOf(site)))
	}
}

func objName(o *Object) string {
	if o.Name != "" {
		return o.Name
	}
	if o.Type != nil {
		return fmt.Sprintf("obj%d(%s)", o.ID, o.Type)
	}
	return fmt.Sprintf("obj%d", o.ID)
}

// ---------------------------------------------------------------- solver glue

func (p *Path) fresh(prefix string, s smt.Sort) *smt.Term {
	p.nvar++
	v := smt.Var(fmt.Sprintf("%s!%d", prefix, p.nvar), s)
	p.S.Declare(v)
	return v
}

func (p *Path) freshNamed(name string, s smt.Sort) *smt.Term {
	v := smt.Var(sanitize(name), s)
	// under vrt.ShareNames the same name denotes the same input: declared once per path
	if !p.declFuns["var|"+v.Name] {
		p.declFuns["var|"+v.Name] = true
		p.S.Declare(v)
	}
	return v
}

func sanitize(s string) string {
	var sb strings.Builder
	for _, c := range s {
		if c >= 'a' && c <= 'z' || c >= 'A' && c <= 'Z' || c >= '0' && c <= '9' || c == '_' || c == '!' || c == '.' {
			sb.WriteRune(c)
		} else {
			fmt.Fprintf(&sb, "_x%x_", c)
		}
	}
	return "v_" + sb.String()
}

func (p *Path) assert(t *smt.Term) {
	if t.IsTrue() {
		return
	}
	p.S.Assert(t)
	p.learn(t, true)
}

// learn records literals implied by an asserted term (syntactic fact cache;
// saves solver calls for conditions the path condition already fixes).
func (p *Path) learn(t *smt.Term, val bool) {
	switch {
	case t.Op == "not":
		p.learn(t.Args[0], !val)
		return
	case t.Op == "and" && val:
		for _, a := range t.Args {
			p.learn(a, true)
		}
	case t.Op == "or" && !val:
		for _, a := range t.Args {
			p.learn(a, false)
		}
	}
	if t.Op == "bool" {
		return
	}
	p.facts[t.String()] = val
}

// known: is the truth value of t fixed by recorded facts?
func (p *Path) known(t *smt.Term) (bool, bool) {
	if t.Op == "bool" {
		return t.B, true
	}
	if v, ok := p.facts[t.String()]; ok {
		return v, true
	}
	switch t.Op {
	case "not":
		if v, ok := p.known(t.Args[0]); ok {
			return !v, true
		}
	case "and":
		all := true
		for _, a := range t.Args {
			v, ok := p.known(a)
			if ok && !v {
				return false, true
			}
			if !ok {
				all = false
			}
		}
		if all {
			return true, true
		}
	case "or":
		all := true
		for _, a := range t.Args {
			v, ok := p.known(a)
			if ok && v {
				return true, true
			}
			if !ok {
				all = false
			}
		}
		if all {
			return false, true
		}
	}
	return false, false
}

func (p *Path) feasible(t *smt.Term) bool {
	if t.IsTrue() {
		return true
	}
	if t.IsFalse() {
		return false
	}
	r := p.S.CheckWith(t)
	return r != smt.Unsat
}

// branch decides a symbolic condition on this path; both outcomes are explored
// (the other one is queued) when both are feasible.
func (p *Path) branch(c *smt.Term) bool {
	if c.IsTrue() {
		return true
	}
	if c.IsFalse() {
		return false
	}
	if v, ok := p.known(c); ok {
		return v
	}
	if p.pos < len(p.prefix) {
		d := p.prefix[p.pos]
		p.pos++
		p.decided = append(p.decided, d)
		if d == 1 {
			p.assert(c)
			return true
		}
		p.assert(smt.Not(c))
		return false
	}
	p.pos++
	rt := p.S.CheckWith(c)
	rf := smt.Sat
	if rt != smt.Unsat {
		// (when c is infeasible the path itself is feasible only through ¬c)
		rf = p.S.CheckWith(smt.Not(c))
	}
	if rt == smt.Unknown || rf == smt.Unknown {
		p.res.Unknown++
	}
	switch {
	case rt != smt.Unsat && rf != smt.Unsat:
		alt := append(append([]int{}, p.decided...), 0)
		p.newWork = append(p.newWork, alt)
		p.decided = append(p.decided, 1)
		p.assert(c)
		return true
	case rt != smt.Unsat:
		p.decided = append(p.decided, 1)
		p.assert(c)
		return true
	case rf != smt.Unsat:
		p.decided = append(p.decided, 0)
		p.assert(smt.Not(c))
		return false
	}
	panic(stopPath{kind: "infeasible", msg: "both branches infeasible"})
}

// choose: an n-way nondeterministic decision with no condition attached.
func (p *Path) choose(what string, n int) int {
	if n <= 1 {
		return 0
	}
	if p.pos < len(p.prefix) {
		d := p.prefix[p.pos]
		p.pos++
		p.decided = append(p.decided, d)
		return d
	}
	p.pos++
	for k := 1; k < n; k++ {
		alt := append(append([]int{}, p.decided...), k)
		p.newWork = append(p.newWork, alt)
	}
	p.decided = append(p.decided, 0)
	return 0
}

// ---------------------------------------------------------------- findings

func (p *Path) model() map[string]interface{} {
	m := map[string]interface{}{}
	var terms []*smt.Term
	type slot struct {
		in  *Input
		idx int // -1: len / scalar
	}
	var slots []slot
	for _, in := range p.inputs {
		switch in.Kind {
		case "string":
			terms = append(terms, in.Len)
			slots = append(slots, slot{in, -1})
			for i := 0; i < in.Max; i++ {
				terms = append(terms, smt.Select(in.Arr, smt.Int(int64(i))))
				slots = append(slots, slot{in, i})
			}
		case "int", "bool":
			terms = append(terms, in.T)
			slots = append(slots, slot{in, -1})
		case "choose":
			m[in.Name] = in.Conc
		}
	}
	vals := p.S.GetValues(terms)
	if vals == nil && len(terms) > 0 {
		return nil
	}
	strs := map[*Input][]int{}
	lens := map[*Input]int{}
	for i, sl := range slots {
		v := vals[i]
		switch sl.in.Kind {
		case "string":
			n, _ := parseBig(v)
			if sl.idx < 0 {
				lens[sl.in] = int(n.Int64())
				strs[sl.in] = make([]int, sl.in.Max)
			} else {
				strs[sl.in][sl.idx] = int(n.Int64())
			}
		case "int":
			n, _ := parseBig(v)
			if n.IsInt64() {
				m[sl.in.Name] = n.Int64()
			} else {
				m[sl.in.Name] = n.String()
			}
		case "bool":
			m[sl.in.Name] = v == "true"
		}
	}
	for in, bs := range strs {
		n := lens[in]
		if n > len(bs) {
			n = len(bs)
		}
		out := make([]int, n)
		copy(out, bs[:n])
		m[in.Name] = out
	}
	return m
}

func parseBig(v string) (*big.Int, bool) {
	v = strings.TrimSpace(v)
	neg := false
	if strings.HasPrefix(v, "(-") {
		neg = true
		v = strings.TrimSpace(strings.TrimSuffix(strings.TrimPrefix(v, "(-"), ")"))
	}
	n, ok := new(big.Int).SetString(v, 10)
	if !ok {
		return big.NewInt(0), false
	}
	if neg {
		n.Neg(n)
	}
	return n, true
}

// violation records a finding for condition `bad` (a term that is satisfiable
// under the current path); classification against known regions is done here.
func (p *Path) reportViolation(kind, msg, pos string, bad *smt.Term) (found bool) {
	// 1. outside every known region
	var notKnown []*smt.Term
	for _, r := range p.regions {
		notKnown = append(notKnown, smt.Not(r.Cond))
	}
	outside := smt.And(append([]*smt.Term{bad}, notKnown...)...)
	if !outside.IsFalse() {
		p.S.Push()
		p.S.Assert(outside)
		r := p.S.Check()
		if r == smt.Sat {
			f := Finding{Kind: kind, Msg: msg, Pos: pos, Model: p.model(), Harness: p.harness, Trace: append([]int{}, p.decided...)}
			p.S.Pop()
			p.res.Findings = append(p.res.Findings, f)
			return true
		}
		p.S.Pop()
		if r == smt.Unknown {
			p.res.Unknown++
		}
	}
	// 2. inside known regions: one finding per region that admits it
	for _, rg := range p.regions {
		in := smt.And(bad, rg.Cond)
		if in.IsFalse() {
			continue
		}
		p.S.Push()
		p.S.Assert(in)
		r := p.S.Check()
		if r == smt.Sat {
			f := Finding{Kind: kind, Msg: msg, Pos: pos, Known: rg.ID, Model: p.model(), Harness: p.harness, Trace: append([]int{}, p.decided...)}
			p.res.Findings = append(p.res.Findings, f)
			found = true
		} else if r == smt.Unknown {
			p.res.Unknown++
		}
		p.S.Pop()
	}
	return found
}

var debugPaths = os.Getenv("GOSYM_DEBUG_PATHS") != ""

// witnessAll (debugging aid): keep the inputs of every completed path, not one per harness
var witnessAll = os.Getenv("GOSYM_WITNESS_ALL") != ""

// checkAssert handles vrt.Assert(c,msg).
func (p *Path) checkAssert(c *smt.Term, msg string, site ssa.Instruction) {
	p.res.Asserts++
	if c.IsTrue() {
		p.res.Proved++
		return
	}
	if v, ok := p.known(c); ok && v {
		p.res.Proved++
		return
	}
	bad := smt.Not(c)
	r := smt.Sat
	if !c.IsFalse() {
		r = p.S.CheckWith(bad)
	}
	switch r {
	case smt.Unsat:
		p.res.Proved++
		return
	case smt.Unknown:
		p.res.Unknown++
		return
	}
	p.reportViolation("assert", msg, p.posOf(site), bad)
	// continue exploring the rest of the path under the assertion
	if c.IsFalse() {
		panic(stopPath{kind: "violation", msg: msg})
	}
	p.assert(c)
}

// ---------------------------------------------------------------- running

type Task struct {
	Harness string
	Fn      *ssa.Function
	Prefix  []int
}

func (e *Engine) newPath(s *smt.Solver, st *Stats, t Task) *Path {
	return &Path{E: e, S: s, harness: t.Harness, prefix: t.Prefix, globals: map[*ssa.Global]*Object{},
		sentinels: map[string]Value{}, inputCnt: map[string]int{}, stats: st, floatToks: map[uint64]*smt.Term{},
		declFuns: map[string]bool{}, memo: map[string]Value{}, reads: map[*Object]bool{}, mreads: map[*MapObj]bool{},
		side: map[string]interface{}{}, facts: map[string]bool{}}
}

// RunPath executes one path (given by its decision prefix) of a harness.
func (e *Engine) RunPath(s *smt.Solver, st *Stats, t Task) (res PathResult, work [][]int) {
	p := e.newPath(s, st, t)
	s.Push()
	defer s.Pop()
	defer func() {
		r := recover()
		res = p.res
		res.Steps = p.steps
		res.Decisions = p.decided
		work = p.newWork
		switch x := r.(type) {
		case nil:
			res.Outcome = "done"
			if p.E.Cfg.Witnesses && res.Asserts > 0 && len(res.Findings) == 0 && st.needWitness(t.Harness) {
				func() {
					defer func() { recover() }()
					if p.S.Check() == smt.Sat {
						res.Witness = &Witness{Model: p.model(), Reached: append([]string{}, res.Reached...), Asserts: res.Asserts}
					}
				}()
			}
		case stopPath:
			res.Outcome = x.kind
			res.Msg = x.msg
			if x.kind == "unsupported" {
				st.mu.Lock()
				st.Unsupp[x.msg]++
				st.mu.Unlock()
			}
		case goPanic:
			res.Outcome = "panic"
			res.Msg = x.msg + " at " + x.pos
			p.reportViolation("panic", x.msg, x.pos, smt.True)
			res.Findings = p.res.Findings
		default:
			// a defect of the engine itself: the path is inconclusive, never a pass
			res.Outcome = "unsupported"
			res.Msg = fmt.Sprintf("engine error: %v", r)
			if p.curIns != nil {
				res.Msg += " at " + p.posOf(p.curIns)
			}
			st.mu.Lock()
			st.Unsupp[res.Msg]++
			st.mu.Unlock()
		}
		if p.E.Cfg.WriteMonitor && len(p.writes) > 0 && (res.Outcome == "done" || res.Outcome == "panic" || res.Outcome == "violation") {
			for _, w := range p.writes {
				st.mu.Lock()
				st.SharedWrites[w]++
				st.mu.Unlock()
			}
			if found := p.reportViolation("shared-write", strings.Join(uniq(p.writes), "; "), "", smt.True); found {
				res.Findings = p.res.Findings
			}
		}
	}()
	// package initialisers (concrete; unsupported calls poison the variable)
	p.initMode = true
	// the harness's own package; its init runs the inits of what it imports
	// (those of packages that are executed symbolically: isInitPkg)
	if t.Fn.Pkg != nil {
		if f := t.Fn.Pkg.Func("init"); f != nil {
			p.exec(f, nil, nil, nil)
		}
	}
	p.initMode = false
	p.entered = false
	p.exec(t.Fn, nil, nil, nil)
	return
}

func (e *Engine) markEntered(fn *ssa.Function) bool { return false }

func uniq(ss []string) []string {
	m := map[string]bool{}
	var out []string
	for _, s := range ss {
		if !m[s] {
			m[s] = true
			out = append(out, s)
		}
	}
	sort.Strings(out)
	return out
}

type HarnessResult struct {
	Harness    string
	Paths      int
	Outcomes   map[string]int
	Asserts    int
	Proved     int
	Unknown    int
	Steps      int
	Findings   []Finding
	Unsupp     map[string]int
	Reached    map[string]int
	Required   map[string]bool
	Truncated  bool
	Wall       time.Duration
	Witness    *Witness
	AllWitnesses []*Witness
}

type SolverStats struct {
	Queries, Sat, Unsat, Unknown int
	Time                          time.Duration
	Errors                        []string
}

// Explore runs all paths of the given harness functions on a worker pool.
func (e *Engine) Explore(harnesses []Task, st *Stats) (map[string]*HarnessResult, SolverStats) {
	results := map[string]*HarnessResult{}
	for _, h := range harnesses {
		results[h.Harness] = &HarnessResult{Harness: h.Harness, Outcomes: map[string]int{}, Unsupp: map[string]int{}, Reached: map[string]int{}, Required: map[string]bool{}}
	}
	var mu sync.Mutex
	cond := sync.NewCond(&mu)
	work := append([]Task{}, harnesses...)
	active := 0
	total := 0
	var ss SolverStats
	var wg sync.WaitGroup
	t0 := time.Now()
	for w := 0; w < e.Cfg.Workers; w++ {
		wg.Add(1)
		go func() {
			defer wg.Done()
			s, err := smt.NewSolver(e.Cfg.TimeoutMs)
			if err != nil {
				panic(err)
			}
			defer func() {
				mu.Lock()
				ss.Queries += s.Queries
				ss.Sat += s.NSat
				ss.Unsat += s.NUnsat
				ss.Unknown += s.NUnk
				ss.Time += s.Time
				ss.Errors = append(ss.Errors, s.Errors...)
				mu.Unlock()
				s.Close()
			}()
			npaths := 0
			for {
				mu.Lock()
				for len(work) == 0 && active > 0 {
					cond.Wait()
				}
				if len(work) == 0 {
					mu.Unlock()
					cond.Broadcast()
					return
				}
				t := work[len(work)-1]
				work = work[:len(work)-1]
				active++
				total++
				over := total > e.Cfg.MaxPaths
				mu.Unlock()
				if over {
					mu.Lock()
					results[t.Harness].Truncated = true
					active--
					mu.Unlock()
					cond.Broadcast()
					continue
				}
				res, more := e.RunPath(s, st, t)
				npaths++
				if npaths%2000 == 0 || len(s.Errors) > 0 {
					// restart the solver now and then to bound its memory
					mu.Lock()
					ss.Queries += s.Queries
					ss.Sat += s.NSat
					ss.Unsat += s.NUnsat
					ss.Unknown += s.NUnk
					ss.Time += s.Time
					ss.Errors = append(ss.Errors, s.Errors...)
					mu.Unlock()
					s.Close()
					s, err = smt.NewSolver(e.Cfg.TimeoutMs)
					if err != nil {
						panic(err)
					}
				}
				mu.Lock()
				hr := results[t.Harness]
				hr.Paths++
				hr.Outcomes[res.Outcome]++
				if debugPaths {
					fmt.Fprintf(os.Stderr, "path %s %v: %s %s (unknown %d)\n", t.Harness, res.Decisions, res.Outcome, res.Msg, res.Unknown)
				}
				hr.Asserts += res.Asserts
				hr.Proved += res.Proved
				hr.Unknown += res.Unknown
				hr.Steps += res.Steps
				hr.Findings = append(hr.Findings, res.Findings...)
				if res.Outcome == "unsupported" || res.Outcome == "unwind" {
					hr.Unsupp[res.Outcome+": "+res.Msg]++
				}
				for _, r := range res.Reached {
					hr.Reached[r]++
				}
				if res.Witness != nil && hr.Witness == nil {
					hr.Witness = res.Witness
				}
				if res.Witness != nil && witnessAll {
					hr.AllWitnesses = append(hr.AllWitnesses, res.Witness)
				}
				for _, r := range res.Required {
					hr.Required[r] = true
				}
				if e.Cfg.MaxPathsPerHarness > 0 && hr.Paths >= e.Cfg.MaxPathsPerHarness {
					// this harness has used its budget: what is left of it is not explored
					// (reported by the driver; never counted as decided)
					if len(more) > 0 {
						hr.Truncated = true
					}
					more = nil
				}
				for _, m := range more {
					work = append(work, Task{Harness: t.Harness, Fn: t.Fn, Prefix: m})
				}
				active--
				mu.Unlock()
				cond.Broadcast()
			}
		}()
	}
	wg.Wait()
	for _, hr := range results {
		hr.Wall = time.Since(t0)
	}
	return results, ss
}
