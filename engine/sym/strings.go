package sym

import (
	"bytes"
	"fmt"

	"gosym/smt"

	"golang.org/x/tools/go/ssa"
)

// normStr merges adjacent constant atoms, drops empty ones, turns constant
// ABytes into AConst.
func normStr(s StrV) StrV {
	var out []Atom
	for _, a := range s.A {
		switch a.Kind {
		case AConst:
			if len(a.B) == 0 {
				continue
			}
		case ABytes:
			if len(a.Bs) == 0 {
				continue
			}
			all := true
			for _, b := range a.Bs {
				if !b.IsInt() {
					all = false
					break
				}
			}
			if all && a.Prov == nil {
				bs := make([]byte, len(a.Bs))
				for i, b := range a.Bs {
					c, _ := b.Int64()
					bs[i] = byte(c)
				}
				a = Atom{Kind: AConst, B: bs}
			}
		case AView:
			if c, ok := a.Len.Int64(); ok && c == 0 {
				continue
			}
		}
		if n := len(out); n > 0 && a.Kind == AConst && out[n-1].Kind == AConst && a.Prov == nil && out[n-1].Prov == nil {
			nb := make([]byte, 0, len(out[n-1].B)+len(a.B))
			nb = append(append(nb, out[n-1].B...), a.B...)
			out[n-1] = Atom{Kind: AConst, B: nb}
			continue
		}
		if n := len(out); n > 0 && a.Kind == ABytes && out[n-1].Kind == ABytes && a.Prov == nil && out[n-1].Prov == nil {
			nb := append(append([]*smt.Term{}, out[n-1].Bs...), a.Bs...)
			out[n-1] = Atom{Kind: ABytes, Bs: nb}
			continue
		}
		if n := len(out); n > 0 && a.Kind == AView && out[n-1].Kind == AView && a.Prov == nil && out[n-1].Prov == nil &&
			smt.Same(a.Arr, out[n-1].Arr) && smt.Same(a.Off, smt.Add(out[n-1].Off, out[n-1].Len)) {
			out[n-1] = Atom{Kind: AView, Arr: a.Arr, Off: out[n-1].Off, Len: smt.Add(out[n-1].Len, a.Len), Max: out[n-1].Max + a.Max}
			continue
		}
		out = append(out, a)
	}
	return StrV{A: out}
}

func strConcat(a, b StrV) StrV {
	r := make([]Atom, 0, len(a.A)+len(b.A))
	r = append(append(r, a.A...), b.A...)
	return normStr(StrV{A: r})
}

// byteAt returns the byte (Int term in 0..255) at symbolic index i of s.
// Caller guarantees 0 <= i < len(s) under the path condition.
func (p *Path) byteAt(s StrV, i *smt.Term) *smt.Term {
	if len(s.A) == 0 {
		return smt.Int(0)
	}
	// walk atoms with cumulative offset
	type seg struct {
		start *smt.Term
		a     Atom
	}
	var segs []seg
	cum := smt.Int(0)
	for _, a := range s.A {
		segs = append(segs, seg{cum, a})
		cum = smt.Add(cum, a.LenTerm())
	}
	var res *smt.Term
	for k := len(segs) - 1; k >= 0; k-- {
		sg := segs[k]
		local := smt.Sub(i, sg.start)
		var v *smt.Term
		switch sg.a.Kind {
		case AConst:
			v = constByteAt(sg.a.B, local)
		case ABytes:
			v = termByteAt(sg.a.Bs, local)
		case AView:
			v = smt.Select(sg.a.Arr, smt.Add(sg.a.Off, local))
		}
		if res == nil {
			res = v
		} else {
			end := smt.Add(sg.start, sg.a.LenTerm())
			res = smt.Ite(smt.Lt(i, end), v, res)
		}
	}
	return res
}

func constByteAt(b []byte, i *smt.Term) *smt.Term {
	if c, ok := i.Int64(); ok {
		if c >= 0 && int(c) < len(b) {
			return smt.Int(int64(b[c]))
		}
		return smt.Int(0)
	}
	res := smt.Int(int64(b[len(b)-1]))
	for k := len(b) - 2; k >= 0; k-- {
		res = smt.Ite(smt.Eq(i, smt.Int(int64(k))), smt.Int(int64(b[k])), res)
	}
	return res
}

func termByteAt(b []*smt.Term, i *smt.Term) *smt.Term {
	if c, ok := i.Int64(); ok {
		if c >= 0 && int(c) < len(b) {
			return b[c]
		}
		return smt.Int(0)
	}
	res := b[len(b)-1]
	for k := len(b) - 2; k >= 0; k-- {
		res = smt.Ite(smt.Eq(i, smt.Int(int64(k))), b[k], res)
	}
	return res
}

// strEq: a == b as a Bool term, expanded over the static bound.
func (p *Path) strEq(a, b StrV) *smt.Term {
	if a.IsConst() && b.IsConst() {
		return smt.Bool(a.ConstString() == b.ConstString())
	}
	la, lb := a.LenTerm(), b.LenTerm()
	if b.IsConst() {
		a, b = b, a
		la, lb = lb, la
	}
	if a.IsConst() {
		cs := a.ConstString()
		if len(cs) > b.MaxLen() {
			return smt.False
		}
		ts := []*smt.Term{smt.Eq(lb, smt.Int(int64(len(cs))))}
		for k := 0; k < len(cs); k++ {
			ts = append(ts, smt.Eq(p.byteAt(b, smt.Int(int64(k))), smt.Int(int64(cs[k]))))
		}
		return smt.And(ts...)
	}
	// identical ropes
	if sameRope(a, b) {
		return smt.True
	}
	// canonical operand order, so that a == b and b == a are the same term
	if a.String() > b.String() {
		a, b = b, a
		la, lb = lb, la
	}
	n := a.MaxLen()
	if m := b.MaxLen(); m < n {
		n = m
	}
	ts := []*smt.Term{smt.Eq(la, lb)}
	for k := 0; k < n; k++ {
		kk := smt.Int(int64(k))
		ts = append(ts, smt.Implies(smt.Lt(kk, la), smt.Eq(p.byteAt(a, kk), p.byteAt(b, kk))))
	}
	return smt.And(ts...)
}

func sameRope(a, b StrV) bool {
	if len(a.A) != len(b.A) {
		return false
	}
	for i := range a.A {
		x, y := a.A[i], b.A[i]
		if x.Kind != y.Kind {
			return false
		}
		switch x.Kind {
		case AConst:
			if !bytes.Equal(x.B, y.B) {
				return false
			}
		case AView:
			if !smt.Same(x.Arr, y.Arr) || !smt.Same(x.Off, y.Off) || !smt.Same(x.Len, y.Len) {
				return false
			}
		case ABytes:
			if len(x.Bs) != len(y.Bs) {
				return false
			}
			for k := range x.Bs {
				if !smt.Same(x.Bs[k], y.Bs[k]) {
					return false
				}
			}
		}
	}
	return true
}

// strSlice implements s[lo:hi] with Go's bounds panics as obligations.
func (p *Path) strSlice(s StrV, lo, hi *smt.Term, site ssa.Instruction) StrV {
	n := s.LenTerm()
	if lo == nil {
		lo = smt.Int(0)
	}
	if hi == nil {
		hi = n
	}
	ok := smt.And(smt.Ge(lo, smt.Int(0)), smt.Le(lo, hi), smt.Le(hi, n))
	p.obligation(ok, site, fmt.Sprintf("slice bounds out of range [%s:%s] with length %s", lo, hi, n))
	return p.subRope(s, lo, hi, site)
}

// subRope: s[lo:hi], bounds already established.
func (p *Path) subRope(s StrV, lo, hi *smt.Term, site ssa.Instruction) StrV {
	if len(s.A) == 0 {
		return s
	}
	if c, ok := lo.Int64(); ok && c == 0 && smt.Same(hi, s.LenTerm()) {
		return s // the whole string (provenance of opaque atoms is kept)
	}
	if len(s.A) == 1 && s.A[0].Kind == AView {
		a := s.A[0]
		ln := smt.Sub(hi, lo)
		mx := a.Max
		if c, ok := ln.Int64(); ok && int(c) < mx {
			mx = int(c)
		}
		if c, ok := lo.Int64(); ok && a.Max-int(c) < mx {
			mx = a.Max - int(c)
			if mx < 0 {
				mx = 0
			}
		}
		return normStr(StrV{A: []Atom{{Kind: AView, Arr: a.Arr, Off: smt.Add(a.Off, lo), Len: ln, Max: mx, Prov: nil}}})
	}
	// cut points that coincide (syntactically) with atom boundaries
	if _, isC := lo.Int64(); !isC || true {
		cum := smt.Int(0)
		loIdx, hiIdx := -1, -1
		if c, ok := lo.Int64(); ok && c == 0 {
			loIdx = 0
		}
		for i, a := range s.A {
			if loIdx < 0 && smt.Same(cum, lo) {
				loIdx = i
			}
			cum = smt.Add(cum, a.LenTerm())
			if smt.Same(cum, hi) {
				hiIdx = i + 1
			}
		}
		if loIdx < 0 && smt.Same(cum, lo) {
			loIdx = len(s.A)
		}
		if loIdx >= 0 && hiIdx >= loIdx {
			return normStr(StrV{A: append([]Atom{}, s.A[loIdx:hiIdx]...)})
		}
		// cut points that are FORCED (by the path condition) to coincide with an
		// atom boundary: opaque atoms then stay whole and keep their provenance
		if _, hc := hi.Int64(); !hc && len(s.A) > 1 {
			cum2 := smt.Int(0)
			bounds := []*smt.Term{cum2}
			for _, a := range s.A {
				cum2 = smt.Add(cum2, a.LenTerm())
				bounds = append(bounds, cum2)
			}
			find := func(t *smt.Term) int {
				if c, ok := t.Int64(); ok && c == 0 {
					return 0
				}
				for i, b := range bounds {
					if smt.Same(b, t) {
						return i
					}
				}
				for i, b := range bounds {
					if !p.feasible(smt.Not(smt.Eq(t, b))) {
						return i
					}
				}
				return -1
			}
			li, hi2 := find(lo), find(hi)
			if li >= 0 && hi2 >= li {
				return normStr(StrV{A: append([]Atom{}, s.A[li:hi2]...)})
			}
		}
	}
	// multi-atom: walk atoms; an atom with concrete start can be cut symbolically
	// only if it is the single atom touched; otherwise need concrete cut points.
	lc, lok := lo.Int64()
	hc, hok := hi.Int64()
	if !lok {
		lc = int64(p.concretize(lo, "slice low of rope", site))
	}
	if !hok {
		// try to express relative to total length: hi == len(s) is common
		if smt.Same(hi, s.LenTerm()) {
			return p.dropPrefix(s, int(lc), site)
		}
		hc = int64(p.concretize(hi, "slice high of rope", site))
	}
	r := p.dropPrefix(s, int(lc), site)
	return p.takePrefix(r, int(hc-lc), site)
}

// dropPrefix removes the first n bytes (n concrete, n <= len established).
func (p *Path) dropPrefix(s StrV, n int, site ssa.Instruction) StrV {
	var out []Atom
	rem := n
	for i, a := range s.A {
		if rem == 0 {
			out = append(out, s.A[i:]...)
			break
		}
		switch a.Kind {
		case AConst:
			if rem >= len(a.B) {
				rem -= len(a.B)
				continue
			}
			out = append(out, Atom{Kind: AConst, B: a.B[rem:]})
			rem = 0
		case ABytes:
			if rem >= len(a.Bs) {
				rem -= len(a.Bs)
				continue
			}
			out = append(out, Atom{Kind: ABytes, Bs: a.Bs[rem:]})
			rem = 0
		case AView:
			if c, ok := a.Len.Int64(); ok {
				if rem >= int(c) {
					rem -= int(c)
					continue
				}
				out = append(out, Atom{Kind: AView, Arr: a.Arr, Off: smt.Add(a.Off, smt.Int(int64(rem))), Len: smt.Int(c - int64(rem)), Max: int(c) - rem})
				rem = 0
				continue
			}
			// symbolic-length view: does the cut fall inside it?
			if p.branch(smt.Ge(a.Len, smt.Int(int64(rem)))) {
				mx := a.Max - rem
				if mx < 0 {
					mx = 0
				}
				out = append(out, Atom{Kind: AView, Arr: a.Arr, Off: smt.Add(a.Off, smt.Int(int64(rem))), Len: smt.Sub(a.Len, smt.Int(int64(rem))), Max: mx})
				rem = 0
			} else {
				l := p.concretize(a.Len, "view length in rope cut", site)
				rem -= l
			}
		}
	}
	return normStr(StrV{A: out})
}

// takePrefix keeps the first n bytes (n concrete, n <= len established).
func (p *Path) takePrefix(s StrV, n int, site ssa.Instruction) StrV {
	var out []Atom
	rem := n
	for _, a := range s.A {
		if rem == 0 {
			break
		}
		switch a.Kind {
		case AConst:
			if rem >= len(a.B) {
				out = append(out, a)
				rem -= len(a.B)
			} else {
				out = append(out, Atom{Kind: AConst, B: a.B[:rem]})
				rem = 0
			}
		case ABytes:
			if rem >= len(a.Bs) {
				out = append(out, a)
				rem -= len(a.Bs)
			} else {
				out = append(out, Atom{Kind: ABytes, Bs: a.Bs[:rem]})
				rem = 0
			}
		case AView:
			if c, ok := a.Len.Int64(); ok && rem >= int(c) {
				out = append(out, a)
				rem -= int(c)
				continue
			}
			if p.branch(smt.Ge(a.Len, smt.Int(int64(rem)))) {
				out = append(out, Atom{Kind: AView, Arr: a.Arr, Off: a.Off, Len: smt.Int(int64(rem)), Max: rem})
				rem = 0
			} else {
				l := p.concretize(a.Len, "view length in rope cut", site)
				out = append(out, Atom{Kind: AView, Arr: a.Arr, Off: a.Off, Len: smt.Int(int64(l)), Max: l})
				rem -= l
			}
		}
	}
	return normStr(StrV{A: out})
}

// matchAt: bytes of s starting at k equal const pat (no length check).
func (p *Path) matchAt(s StrV, k *smt.Term, pat []byte) *smt.Term {
	ts := make([]*smt.Term, 0, len(pat))
	for i, c := range pat {
		ts = append(ts, smt.Eq(p.byteAt(s, smt.Add(k, smt.Int(int64(i)))), smt.Int(int64(c))))
	}
	return smt.And(ts...)
}

func (p *Path) hasPrefix(s, pre StrV) *smt.Term {
	if pre.IsConst() {
		pat := []byte(pre.ConstString())
		if s.IsConst() {
			return smt.Bool(bytes.HasPrefix([]byte(s.ConstString()), pat))
		}
		if len(pat) > s.MaxLen() {
			return smt.False
		}
		return smt.And(smt.Ge(s.LenTerm(), smt.Int(int64(len(pat)))), p.matchAt(s, smt.Int(0), pat))
	}
	lp, ls := pre.LenTerm(), s.LenTerm()
	ts := []*smt.Term{smt.Le(lp, ls)}
	n := pre.MaxLen()
	if m := s.MaxLen(); m < n {
		n = m
	}
	for k := 0; k < n; k++ {
		kk := smt.Int(int64(k))
		ts = append(ts, smt.Implies(smt.Lt(kk, lp), smt.Eq(p.byteAt(s, kk), p.byteAt(pre, kk))))
	}
	return smt.And(ts...)
}

func (p *Path) hasSuffix(s, suf StrV) *smt.Term {
	if suf.IsConst() {
		pat := []byte(suf.ConstString())
		if s.IsConst() {
			return smt.Bool(bytes.HasSuffix([]byte(s.ConstString()), pat))
		}
		if len(pat) > s.MaxLen() {
			return smt.False
		}
		ls := s.LenTerm()
		return smt.And(smt.Ge(ls, smt.Int(int64(len(pat)))), p.matchAt(s, smt.Sub(ls, smt.Int(int64(len(pat)))), pat))
	}
	p.unsupported("HasSuffix with symbolic suffix")
	return nil
}

// indexConst: strings.Index(s, pat) with constant non-empty pat, as a skolem
// integer with its defining constraint expanded over the static bound.
func (p *Path) indexConst(s StrV, pat []byte) *smt.Term {
	if s.IsConst() {
		return smt.Int(int64(bytes.Index([]byte(s.ConstString()), pat)))
	}
	if len(pat) == 0 {
		return smt.Int(0)
	}
	n := len(pat)
	if n == 1 && len(s.A) > 1 {
		// single byte in a rope: first atom that contains it (atoms whose
		// alphabet excludes the byte, and constants, are decided here)
		res := smt.Int(-1)
		type part struct {
			idx, off *smt.Term
		}
		var parts []part
		off := smt.Int(0)
		for _, at := range s.A {
			one := StrV{A: []Atom{at}}
			var ix *smt.Term
			if at.Kind == AView && at.Alpha != nil && !at.Alpha[pat[0]] {
				ix = smt.Int(-1)
			} else {
				ix = p.indexConst(one, pat)
			}
			parts = append(parts, part{ix, off})
			off = smt.Add(off, one.LenTerm())
		}
		for i := len(parts) - 1; i >= 0; i-- {
			pt := parts[i]
			if pt.idx.IsConst() && pt.idx.I.Sign() < 0 {
				continue
			}
			res = smt.Ite(smt.Ge(pt.idx, smt.Int(0)), smt.Add(pt.off, pt.idx), res)
		}
		return res
	}
	if n == 1 && len(s.A) == 1 && s.A[0].Kind == AView && s.A[0].Alpha != nil && !s.A[0].Alpha[pat[0]] {
		return smt.Int(-1)
	}
	L := s.MaxLen()
	ls := s.LenTerm()
	mkey := "index|" + s.String() + "|" + string(pat)
	if v, ok := p.memo[mkey]; ok {
		return v.(IntV).T
	}
	j := p.fresh("idx", smt.SInt)
	p.memo[mkey] = IntV{T: j}
	// not found: for all k with k+n <= len: no match at k
	var nf []*smt.Term
	nf = append(nf, smt.Eq(j, smt.Int(-1)))
	var firsts []*smt.Term
	for k := 0; k+n <= L; k++ {
		kk := smt.Int(int64(k))
		inb := smt.Le(smt.Int(int64(k+n)), ls)
		m := smt.And(inb, p.matchAt(s, kk, pat))
		nf = append(nf, smt.Not(m))
		// found at k: match at k and no earlier match
		firsts = append(firsts, smt.Implies(smt.Gt(j, kk), smt.Not(m)))
	}
	found := smt.And(smt.Ge(j, smt.Int(0)), smt.Le(smt.Add(j, smt.Int(int64(n))), ls), p.matchAt(s, j, pat), smt.And(firsts...))
	p.assert(smt.Or(smt.And(nf...), found))
	return j
}

// lastIndexConst: strings.LastIndex(s, pat).
func (p *Path) lastIndexConst(s StrV, pat []byte) *smt.Term {
	if s.IsConst() {
		return smt.Int(int64(bytes.LastIndex([]byte(s.ConstString()), pat)))
	}
	n := len(pat)
	L := s.MaxLen()
	ls := s.LenTerm()
	j := p.fresh("lidx", smt.SInt)
	var nf []*smt.Term
	nf = append(nf, smt.Eq(j, smt.Int(-1)))
	var lasts []*smt.Term
	for k := 0; k+n <= L; k++ {
		kk := smt.Int(int64(k))
		inb := smt.Le(smt.Int(int64(k+n)), ls)
		m := smt.And(inb, p.matchAt(s, kk, pat))
		nf = append(nf, smt.Not(m))
		lasts = append(lasts, smt.Implies(smt.Lt(j, kk), smt.Not(m)))
	}
	found := smt.And(smt.Ge(j, smt.Int(0)), smt.Le(smt.Add(j, smt.Int(int64(n))), ls), p.matchAt(s, j, pat), smt.And(lasts...))
	p.assert(smt.Or(smt.And(nf...), found))
	return j
}

// concretizeStr forks until s has concrete length, and returns it as a rope of
// single-byte terms (ABytes) / constants.
func (p *Path) concretizeLen(s StrV, site ssa.Instruction) ([]*smt.Term, int) {
	n := p.concretize(s.LenTerm(), "string length", site)
	bs := make([]*smt.Term, n)
	for i := 0; i < n; i++ {
		bs[i] = p.byteAt(s, smt.Int(int64(i)))
	}
	return bs, n
}

func bytesToStr(bs []*smt.Term) StrV {
	if len(bs) == 0 {
		return StrV{}
	}
	return normStr(StrV{A: []Atom{{Kind: ABytes, Bs: bs}}})
}

// freshStr: an arbitrary string of at most max bytes (all byte values).
func (p *Path) freshStr(name string, max int) StrV {
	arr := p.freshNamed(name+"_a", smt.SArr)
	ln := p.freshNamed(name+"_n", smt.SInt)
	p.assert(smt.And(smt.Ge(ln, smt.Int(0)), smt.Le(ln, smt.Int(int64(max)))))
	for i := 0; i < max; i++ {
		b := smt.Select(arr, smt.Int(int64(i)))
		p.assert(smt.And(smt.Ge(b, smt.Int(0)), smt.Le(b, smt.Int(255))))
	}
	return StrV{A: []Atom{{Kind: AView, Arr: arr, Off: smt.Int(0), Len: ln, Max: max}}}
}
