// Package sym is a path-wise symbolic executor for the subset of Go SSA that
// goag and its generated packages use. See /verif/DESIGN.md section 2.
package sym

import (
	"fmt"
	"go/types"
	"strings"

	"gosym/smt"

	"golang.org/x/tools/go/ssa"
)

type Value interface{}

// IntV: every Go integer type (incl. byte, rune, uintptr). Small marks values
// derived from lengths / indices / small constants which cannot wrap in 64 bits.
type IntV struct {
	T     *smt.Term
	Small bool
}

type BoolV struct{ T *smt.Term }

// FloatV: concrete float64 or opaque symbolic (uninterpreted Int-sorted token).
type FloatV struct {
	Conc  bool
	F     float64
	Tok   *smt.Term // opaque token (Int sort) when !Conc
	Prov  *Prov
	Bits  int // 32: the value is representable as a float32 (0/64: not known to be)
}

// OpaqueV: a value of a type the engine does not look into (time.Time, etc).
type OpaqueV struct {
	Type types.Type
	Tok  *smt.Term // Int-sorted identity token; equality of tokens = equality of values
	Prov *Prov
}

// Prov records which stub produced a value so that the inverse stub can cancel.
type Prov struct {
	Fn   string
	Args []Value
	J    *JV // Fn=="json": these bytes are the serialisation of J
}

type AtomKind int

const (
	AConst AtomKind = iota
	AView
	ABytes
)

type Atom struct {
	Kind AtomKind
	B    []byte      // AConst
	Arr  *smt.Term   // AView: array
	Off  *smt.Term   // AView
	Len  *smt.Term   // AView
	Max  int         // AView: static upper bound of Len
	Bs   []*smt.Term // ABytes: one Int term per byte
	Prov *Prov       // provenance (opaque formatter output)
	Alpha *[256]bool // AView: bytes the text can contain (nil = any); asserted when the view is made
}

// StrV is a Go string (rope of atoms). Also used for immutable []byte.
type StrV struct{ A []Atom }

// BytesV is a []byte whose content is a rope (result of []byte(s), Buffer.Bytes()).
type BytesV struct {
	S     StrV
	Nil   bool
	Alias *Object // the bytes.Buffer whose storage this slice shares (C20: pooled buffers)
}

type Object struct {
	ID   int
	Val  Value
	Type types.Type
	Pre  bool // allocated before harness entry (shared state for C20)
	Name string
}

type PtrV struct {
	Obj  *Object // nil => nil pointer
	Path []int
	Type types.Type
}

type StructV struct{ F []Value }
type ArrayV struct{ E []Value }

type SliceV struct {
	Arr           *Object // Val is ArrayV; nil => nil slice
	Off, Len, Cap int
}

type MapEntry struct {
	K, V  Value
	Stale bool // hypothetical entry left in a pooled map by another request (C20)
}
type MapObj struct {
	ID      int
	Entries []*MapEntry
	Pre     bool
}
type MapV struct{ M *MapObj } // M==nil => nil map

type IfaceV struct {
	T types.Type // nil => nil interface
	V Value
}

type FuncV struct {
	Fn        *ssa.Function // nil & Intr=="" => nil func
	Free      []Value
	Intr      string  // intrinsic name
	Bound     []Value // bound receiver for intrinsic method values
	TypedNil  bool
}

type TupleV struct{ E []Value }

// ErrV is the payload of engine-made errors (fmt.Errorf, errors.New, stubs).
type ErrV struct {
	Msg     StrV
	Wrapped Value // IfaceV or nil
	ID      int
}

// RangeIter is the state of a Range instruction.
type RangeIter struct {
	IsMap bool
	Keys  []Value
	Vals  []Value
	Stale []bool  // per entry: hypothetical leftover of a pooled map
	Src   *MapObj // the map ranged over
	Str   StrV
	Pos   int
}

type Poison struct{ Why string }

func mkInt(i int64) IntV {
	small := i > -(1<<40) && i < (1<<40)
	return IntV{T: smt.Int(i), Small: small}
}
func mkBool(b bool) BoolV      { return BoolV{T: smt.Bool(b)} }
func constStr(s string) StrV {
	if s == "" {
		return StrV{}
	}
	return StrV{A: []Atom{{Kind: AConst, B: []byte(s)}}}
}

func (s StrV) IsConst() bool {
	for _, a := range s.A {
		if a.Kind != AConst {
			return false
		}
	}
	return true
}

func (s StrV) ConstString() string {
	var sb strings.Builder
	for _, a := range s.A {
		sb.Write(a.B)
	}
	return sb.String()
}

func (a Atom) LenTerm() *smt.Term {
	switch a.Kind {
	case AConst:
		return smt.Int(int64(len(a.B)))
	case ABytes:
		return smt.Int(int64(len(a.Bs)))
	}
	return a.Len
}

func (a Atom) MaxLen() int {
	switch a.Kind {
	case AConst:
		return len(a.B)
	case ABytes:
		return len(a.Bs)
	}
	return a.Max
}

func (s StrV) LenTerm() *smt.Term {
	t := smt.Int(0)
	for _, a := range s.A {
		t = smt.Add(t, a.LenTerm())
	}
	return t
}

func (s StrV) MaxLen() int {
	n := 0
	for _, a := range s.A {
		n += a.MaxLen()
	}
	return n
}

func (s StrV) String() string {
	var sb strings.Builder
	for i, a := range s.A {
		if i > 0 {
			sb.WriteString(" ++ ")
		}
		switch a.Kind {
		case AConst:
			fmt.Fprintf(&sb, "%q", a.B)
		case AView:
			fmt.Fprintf(&sb, "view(%s,%s,%s)", a.Arr, a.Off, a.Len)
		case ABytes:
			fmt.Fprintf(&sb, "bytes%v", a.Bs)
		}
	}
	if len(s.A) == 0 {
		return `""`
	}
	return sb.String()
}

func describe(v Value) string {
	switch x := v.(type) {
	case nil:
		return "<nil>"
	case IntV:
		return x.T.String()
	case BoolV:
		return x.T.String()
	case StrV:
		return x.String()
	case PtrV:
		if x.Obj == nil {
			return "nilptr"
		}
		return fmt.Sprintf("&obj%d%v", x.Obj.ID, x.Path)
	case IfaceV:
		if x.T == nil {
			return "nil-iface"
		}
		return fmt.Sprintf("iface(%s,%s)", x.T, describe(x.V))
	case StructV:
		var ps []string
		for _, f := range x.F {
			ps = append(ps, describe(f))
		}
		return "{" + strings.Join(ps, ",") + "}"
	case OpaqueV:
		return "opaque(" + x.Tok.String() + ")"
	case FloatV:
		if x.Conc {
			return fmt.Sprintf("float(%v)", x.F)
		}
		return "float(" + x.Tok.String() + ")"
	case BytesV:
		return "bytes(" + x.S.String() + ")"
	case SliceV:
		if x.Arr == nil {
			return "nilslice"
		}
		return fmt.Sprintf("slice(obj%d,%d,%d)", x.Arr.ID, x.Off, x.Len)
	case MapV:
		if x.M == nil {
			return "nilmap"
		}
		return fmt.Sprintf("map#%d", x.M.ID)
	case JVal:
		return fmt.Sprintf("json#%p", x.J)
	}
	return fmt.Sprintf("%T:%v", v, v)
}
