#!/bin/sh
# tools/confirm_mutant.sh <PROP> <VARIANT>: confirm a seeded change in its scratch worktree /tmp/mut-<PROP>
# (compiles, repo tests pass, demo passes without / fails with), then store it under /verif/seeded/<PROP>-<VARIANT>/
ID=$1; V=$2; W=/tmp/mut-$ID; O=$W/OUT/$V
export GOFLAGS=-mod=mod GOPROXY=off GOSUMDB=off GOTOOLCHAIN=local
cd $W || exit 2
git checkout -q -- . ; for d in $W/demo_*; do [ -d "$d" ] && mv "$d" /tmp/old-$(basename $d)-$$ ; done
log=/tmp/confirm-$ID-$V.log; : > $log
bash $O/demo/run_demo.sh >> $log 2>&1; clean_rc=$?
git apply $O/patch.diff || { echo "$ID-$V: patch does not apply"; exit 3; }
go build ./... >> $log 2>&1; build_rc=$?
go test -vet=off -count=1 ./... >> $log 2>&1; test_rc=$?
bash $O/demo/run_demo.sh >> $log 2>&1; mut_rc=$?
git checkout -q -- .
echo "$ID-$V: demo_clean=$clean_rc build=$build_rc tests=$test_rc demo_mutated=$mut_rc"
if [ $clean_rc -eq 0 ] && [ $build_rc -eq 0 ] && [ $test_rc -eq 0 ] && [ $mut_rc -ne 0 ]; then
  D=/verif/seeded/$ID-$V; rm -rf $D; mkdir -p $D
  cp $O/patch.diff $D/; cp -r $O/demo $D/demo; cp $O/meta.json $D/agent_meta.json
  echo "$ID-$V CONFIRMED"
else
  echo "$ID-$V NOT CONFIRMED (see $log)"
fi
