#!/bin/sh
# tools/confirm_mutant2.sh <PROP> <VARIANT A|B>: round-2 seeded changes live in /tmp/mut3-<PROP>; stored as <PROP>-C / <PROP>-D
ID=$1; V=$2; W=/tmp/mut3-$ID; O=$W/OUT/$V
case $V in A) S=E;; B) S=F;; esac
export GOFLAGS=-mod=mod GOPROXY=off GOSUMDB=off GOTOOLCHAIN=local
cd $W || exit 2
git checkout -q -- . ; for d in $W/demo_*; do [ -d "$d" ] && rm -rf "$d"; done
log=/tmp/confirm3-$ID-$V.log; : > $log
bash $O/demo/run_demo.sh >> $log 2>&1; clean_rc=$?
for d in $W/demo_*; do [ -d "$d" ] && rm -rf "$d"; done
git apply $O/patch.diff || { echo "$ID-$S: patch does not apply"; exit 3; }
go build ./... >> $log 2>&1; build_rc=$?
go test -vet=off -count=1 ./... >> $log 2>&1; test_rc=$?
bash $O/demo/run_demo.sh >> $log 2>&1; mut_rc=$?
for d in $W/demo_*; do [ -d "$d" ] && rm -rf "$d"; done
git checkout -q -- .
echo "$ID-$S: demo_clean=$clean_rc build=$build_rc tests=$test_rc demo_mutated=$mut_rc"
if [ $clean_rc -eq 0 ] && [ $build_rc -eq 0 ] && [ $test_rc -eq 0 ] && [ $mut_rc -ne 0 ]; then
  D=/verif/seeded/$ID-$S; rm -rf $D; mkdir -p $D
  cp $O/patch.diff $D/; cp -r $O/demo $D/demo; cp $O/meta.json $D/agent_meta.json
  echo "$ID-$S CONFIRMED"
else
  echo "$ID-$S NOT CONFIRMED (see $log)"
fi
