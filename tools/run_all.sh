#!/bin/bash
# Runs every registered check (tier $1, default quick) against /repo's working tree; prints one line per check.
tier=${1:-quick}
cd /verif
for p in $(python3 -c "import json;print(' '.join(c['property_id'] for c in json.load(open('MANIFEST.json'))['checks']))"); do
  t0=$(date +%s)
  out=$(./check $p --tier $tier 2>&1)
  rc=$?
  t1=$(date +%s)
  echo "$p rc=$rc $((t1-t0))s $(echo "$out" | grep -c '^KNOWN-FINDING') known | $(echo "$out" | grep "^$p $tier" | cut -c1-200)"
  echo "$out" | grep "^VIOLATION\|^INCONCLUSIVE" | head -5 | cut -c1-300
done
