#!/bin/bash
# tools/run_thorough.sh [ids...]: thorough tier of each check against /repo, one after the other, 60 min cap each.
cd /verif
ids="$@"; [ -z "$ids" ] && ids="C19 C12 C15 C11 C02 C17 C05 C09 C03 C04 C13 C16 C06 C07 C10 C20 C18 C08 C01 C14"
for p in $ids; do
  t0=$(date +%s)
  out=$(timeout 3600 ./check $p --tier thorough 2>&1); rc=$?
  t1=$(date +%s)
  echo "$p rc=$rc $((t1-t0))s $(echo "$out" | grep -c '^KNOWN-FINDING') known | $(echo "$out" | grep "^$p thorough" | cut -c1-220)"
  echo "$out" | grep "^VIOLATION\|^INCONCLUSIVE" | head -6 | cut -c1-400
  [ $rc -ne 0 ] && cp evidence/$p.json /tmp/evidence-thorough-$p.json 2>/dev/null
  pkill -x z3 2>/dev/null
done
