#!/bin/bash
# tools/sweep_seeded.sh [names...]: apply each seeded change to /repo, run the check of its property (quick), undo.
cd /verif
names="$@"; [ -z "$names" ] && names=$(ls seeded)
for n in $names; do
  d=/verif/seeded/$n; id=${n%-*}
  if ! git -C /repo apply --check $d/patch.diff 2>/dev/null; then echo "$n SKIP patch does not apply to the current tree"; continue; fi
  git -C /repo apply $d/patch.diff
  t0=$(date +%s)
  out=$(./check $id --tier quick 2>&1); rc=$?
  t1=$(date +%s)
  git -C /repo checkout -- . ; git -C /repo clean -fdq
  { echo "check: ./check $id --tier quick   exit=$rc   ${t1}-${t0}s"; echo "$out" | grep -A1 "^VIOLATION" | head -8; echo "$out" | grep "^INCONCLUSIVE" | head -3; echo "$out" | grep "^$id quick"; } > $d/check_result.txt
  echo "$n exit=$rc $((t1-t0))s $(echo "$out" | grep -c '^VIOLATION') violations"
done
