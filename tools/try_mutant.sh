#!/bin/sh
# tools/try_mutant.sh <patch.diff> <prop> [check args...]: apply a seeded change to /repo, run the check, undo.
P=$1; shift
git -C /repo apply "$P" 2>/dev/null || git -C /repo apply -3 "$P" || { git -C /repo reset -q; git -C /repo checkout -- .; echo "patch does not apply"; exit 3; }
/verif/check "$@" > /tmp/try_mutant.out 2>&1; rc=$?
git -C /repo reset -q; git -C /repo checkout -- .
grep -E "^(VIOLATION|KNOWN-FINDING|INCONCLUSIVE|C[0-9]+ (quick|thorough))" /tmp/try_mutant.out | head -${LINES_MAX:-12}
echo "exit=$rc"
