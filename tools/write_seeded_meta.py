#!/usr/bin/env python3
# Writes seeded/<name>/meta.json from the agent's report, my confirmation run and the sweep result.
import json, os, re, sys
root = '/verif/seeded'
for n in sorted(os.listdir(root)):
    d = os.path.join(root, n)
    if not os.path.isdir(d):
        continue
    am = {}
    try:
        am = json.load(open(os.path.join(d, 'agent_meta.json')))
    except Exception:
        pass
    res = ''
    try:
        res = open(os.path.join(d, 'check_result.txt')).read()
    except Exception:
        pass
    m = re.search(r'exit=(\d+)', res)
    rc = int(m.group(1)) if m else None
    viol = [l.strip() for l in res.splitlines() if l.startswith('  ') or l.startswith('VIOLATION')][:4]
    outcome = {1: 'caught: VIOLATION reported', 0: 'MISSED: check passed', 2: 'noticed only: INCONCLUSIVE (exit 2)'}.get(rc, 'not run against the current tree')
    notes = ''
    if 'no verdict' in res:
        outcome = 'NO VERDICT: the run on the changed tree was stopped before it finished (see check_result.txt, DESIGN 12.7 round 3)'
    if os.path.exists(os.path.join(d, 'obsolete.txt')):
        notes = open(os.path.join(d, 'obsolete.txt')).read().strip()
        outcome = 'obsolete on the current tree'
    meta = {
        'property': n.split('-')[0],
        'variant': n.split('-')[1],
        'what_changes': am.get('summary', ''),
        'needs_to_manifest': am.get('needs', ''),
        'produced_by': 'a fresh sub-agent given only the property text and its own scratch worktree of /repo',
        'confirmed_by_me': [
            'in the scratch worktree /tmp/mut-<property> (round 2: /tmp/mut2-, round 3: /tmp/mut3-): demo/run_demo.sh passes on the unchanged tree (exit 0)',
            'git apply patch; go build ./... (exit 0); go test -vet=off -count=1 ./... (all packages ok)',
            'demo/run_demo.sh fails with the patch applied (exit != 0)',
            'worktree reset afterwards (tools/confirm_mutant.sh)',
        ],
        'patch_rebased': os.path.exists(os.path.join(d, 'patch.orig.diff')),
        'check_run': 'git -C /repo apply patch.diff; ./check %s --tier quick; git -C /repo checkout -- .  (tools/sweep_seeded.sh)' % n.split('-')[0],
        'check_exit': rc,
        'check_outcome': outcome,
        'check_output': viol,
        'notes': notes,
    }
    json.dump(meta, open(os.path.join(d, 'meta.json'), 'w'), indent=1)
    print(n, outcome)
