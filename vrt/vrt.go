// Package vrt is the harness vocabulary. The symbolic engine (gosym) intercepts
// every function here; this file is the NATIVE implementation used to replay a
// solver model against the real build: values come from the JSON file named by
// $VERIF_REPLAY, Assert failures are printed as "VRT-ASSERT-FAILED: <msg>".
package vrt

import (
	"time"
	"encoding/json"
	"fmt"
	"net/url"
	"os"
)

var model map[string]interface{}
var counts = map[string]int{}
var loaded bool

// Failed is set when an assertion failed during a native replay.
var Failed []string
var Reached []string

type assumeViolated struct{}

func load() {
	if loaded {
		return
	}
	loaded = true
	model = map[string]interface{}{}
	if f := os.Getenv("VERIF_REPLAY"); f != "" {
		bs, err := os.ReadFile(f)
		if err != nil {
			panic(err)
		}
		var doc struct {
			Model map[string]interface{} `json:"model"`
		}
		if err := json.Unmarshal(bs, &doc); err != nil {
			panic(err)
		}
		model = doc.Model
	}
}

// Reset clears per-run state (a replay test calls one harness per process).
func Reset() { counts = map[string]int{}; Failed = nil; Reached = nil }

func key(name string) string {
	counts[name]++
	if n := counts[name]; n > 1 {
		return fmt.Sprintf("%s#%d", name, n)
	}
	return name
}

func String(name string, max int) string {
	load()
	v, ok := model[key(name)]
	if !ok {
		return ""
	}
	arr, _ := v.([]interface{})
	bs := make([]byte, 0, len(arr))
	for _, x := range arr {
		f, _ := x.(float64)
		bs = append(bs, byte(int(f)))
	}
	return string(bs)
}

func num(name string) int64 {
	load()
	v, ok := model[key(name)]
	if !ok {
		return 0
	}
	switch x := v.(type) {
	case float64:
		return int64(x)
	case string:
		var n int64
		fmt.Sscan(x, &n)
		return n
	}
	return 0
}

func Int(name string) int                  { return int(num(name)) }
func IntRange(name string, lo, hi int) int { v := int(num(name)); if v < lo { v = lo }; return v }
func Choose(name string, n int) int        { return int(num(name)) }

func Bool(name string) bool {
	load()
	v, ok := model[key(name)]
	if !ok {
		return false
	}
	b, _ := v.(bool)
	return b
}

func Assume(c bool) {
	if !c {
		panic(assumeViolated{})
	}
}

func Assert(c bool, msg string) {
	if !c {
		Failed = append(Failed, msg)
		fmt.Printf("VRT-ASSERT-FAILED: %s\n", msg)
	}
}

func Fail(msg string) { Assert(false, msg) }

// Known marks the region of a recorded known finding (no-op natively).
func Known(id string, c bool) {}

func Reach(label string) { Reached = append(Reached, label); fmt.Printf("VRT-REACH: %s\n", label) }

// Enter marks the start of the code under test (C20 heap partition).
func Enter() {}

// Symbolic reports whether the harness runs under the symbolic engine.
func Symbolic() bool { return false }

// SetQuery installs the parsed query of a request URL. Natively it is encoded
// into RawQuery so that URL.Query() parses it back.
func SetQuery(u *url.URL, q url.Values) { u.RawQuery = q.Encode() }

// Run executes a harness natively, turning Assume violations into a clean skip.
func Run(h func()) (skipped bool, panicked interface{}) {
	defer func() {
		if r := recover(); r != nil {
			if _, ok := r.(assumeViolated); ok {
				skipped = true
				return
			}
			panicked = r
		}
	}()
	h()
	return
}

// Time / Float64: opaque values. Natively they are drawn from a fixed pool of
// boundary values indexed by the model's token (mod pool size).
var timePool = []time.Time{
	time.Date(2020, 2, 29, 23, 59, 59, 999999999, time.UTC),
	time.Date(1999, 12, 31, 0, 0, 0, 0, time.FixedZone("x", 3600*5+1800)),
	time.Date(2038, 1, 19, 3, 14, 8, 1, time.UTC),
	time.Date(1, 1, 1, 0, 0, 0, 0, time.UTC),
	time.Date(2024, 6, 1, 12, 0, 0, 500000000, time.FixedZone("y", -3600*8)),
}

func Time(name string) time.Time {
	n := num(name)
	if n < 0 {
		n = -n
	}
	return timePool[int(n%int64(len(timePool)))]
}

var floatPool = []float64{0, 1.5, -2.25, 1e39, 3.4028234663852886e38, 1.401298464324817e-45, 5e-324, 1.7976931348623157e308, 0.1, 123456789.125, -1e-7, 16777217}

func Float64(name string) float64 {
	n := num(name)
	if n < 0 {
		n = -n
	}
	return floatPool[int(n%int64(len(floatPool)))]
}

func Float32(name string) float32 { return float32(Float64(name)) }
