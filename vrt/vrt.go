// Package vrt is the harness vocabulary. The symbolic engine (gosym) intercepts
// every function here; this file is the NATIVE implementation used to replay a
// solver model against the real build: values come from the JSON file named by
// $VERIF_REPLAY, Assert failures are printed as "VRT-ASSERT-FAILED: <msg>".
package vrt

import (
	"strings"
	"go/format"
	"path/filepath"
	"reflect"
	"bytes"
	"time"
	"encoding/json"
	"fmt"
	"net/url"
	"os"
)

var model map[string]interface{}
var counts = map[string]int{}
var loaded bool

// Failed is set when an assertion failed during a native replay.
var Failed []string
var Reached []string

type assumeViolated struct{}

func load() {
	if loaded {
		return
	}
	loaded = true
	model = map[string]interface{}{}
	if f := os.Getenv("VERIF_REPLAY"); f != "" {
		bs, err := os.ReadFile(f)
		if err != nil {
			panic(err)
		}
		var doc struct {
			Model map[string]interface{} `json:"model"`
		}
		if err := json.Unmarshal(bs, &doc); err != nil {
			panic(err)
		}
		model = doc.Model
	}
}

// Reset clears per-run state (a replay test calls one harness per process).
func Reset() { counts = map[string]int{}; Failed = nil; Reached = nil }

func key(name string) string {
	if concurrent || shareNames {
		// same name = same input (no per-call numbering, no writes)
		return name
	}
	counts[name]++
	if n := counts[name]; n > 1 {
		return fmt.Sprintf("%s#%d", name, n)
	}
	return name
}

func String(name string, max int) string {
	load()
	v, ok := model[key(name)]
	if !ok {
		return ""
	}
	arr, _ := v.([]interface{})
	bs := make([]byte, 0, len(arr))
	for _, x := range arr {
		f, _ := x.(float64)
		bs = append(bs, byte(int(f)))
	}
	return string(bs)
}

func num(name string) int64 {
	load()
	v, ok := model[key(name)]
	if !ok {
		return 0
	}
	switch x := v.(type) {
	case float64:
		return int64(x)
	case string:
		var n int64
		fmt.Sscan(x, &n)
		return n
	}
	return 0
}

func Int(name string) int                  { return int(num(name)) }
func IntRange(name string, lo, hi int) int { v := int(num(name)); if v < lo { v = lo }; return v }
func Choose(name string, n int) int        { return int(num(name)) }

func Bool(name string) bool {
	load()
	v, ok := model[key(name)]
	if !ok {
		return false
	}
	b, _ := v.(bool)
	return b
}

func Assume(c bool) {
	if !c {
		panic(assumeViolated{})
	}
}

func Assert(c bool, msg string) {
	if concurrent {
		return
	}
	if !c {
		Failed = append(Failed, msg)
		fmt.Printf("VRT-ASSERT-FAILED: %s\n", msg)
	}
}

func Fail(msg string) { Assert(false, msg) }

// Known marks the region of a recorded known finding (no-op natively).
func Known(id string, c bool) {}

func Reach(label string) {
	if concurrent {
		return
	}
	reach(label)
}

func reach(label string) { Reached = append(Reached, label); fmt.Printf("VRT-REACH: %s\n", label) }

// Repeat: how often a native replay repeats a schedule-dependent step (the
// symbolic run covers every order in one execution and gets 1).
func Repeat(n int) int { return n }

// PermuteMaps: symbolic-only switch (natively the runtime randomises map order).
func PermuteMaps(on bool) {}

// MustReach declares that some path of this harness has to Reach(label)
// (existence obligation, checked by the driver over all explored paths).
func MustReach(label string) {}

// Enter marks the start of the code under test (C20 heap partition).
func Enter() {}

// Shared declares the values (and what they reach) that concurrent requests
// share: the API and Client values. Package-level variables are always shared.
func Shared(vs ...interface{}) {}

var concurrent bool
var shareNames bool

// ShareNames(true): from here on, inputs are identified by name alone, so two
// packages asking for the same name see the same value (C18 product harness).
func ShareNames(on bool) { shareNames = on }

// Concurrent runs the per-request part of a C20 harness: once symbolically and
// in an ordinary replay; with VERIF_CONCURRENT=n (race replay) in n goroutines,
// repeatedly, with no synchronisation of our own between them.
func Concurrent(f func()) {
	n := 0
	fmt.Sscan(os.Getenv("VERIF_CONCURRENT"), &n)
	if n < 2 {
		f()
		return
	}
	load()
	concurrent = true
	done := make(chan struct{}, n)
	for g := 0; g < n; g++ {
		go func() {
			defer func() { recover(); done <- struct{}{} }()
			for it := 0; it < 50; it++ {
				f()
			}
		}()
	}
	for g := 0; g < n; g++ {
		<-done
	}
	concurrent = false
}

// Symbolic reports whether the harness runs under the symbolic engine.
func Symbolic() bool { return false }

// SetQuery installs the parsed query of a request URL. Natively it is encoded
// into RawQuery so that URL.Query() parses it back.
func SetQuery(u *url.URL, q url.Values) { u.RawQuery = q.Encode() }

// Run executes a harness natively, turning Assume violations into a clean skip.
func Run(h func()) (skipped bool, panicked interface{}) {
	defer func() {
		if r := recover(); r != nil {
			if _, ok := r.(assumeViolated); ok {
				skipped = true
				return
			}
			panicked = r
		}
	}()
	h()
	return
}

// Time / Float64: opaque values. Natively they are drawn from a fixed pool of
// boundary values indexed by the model's token (mod pool size).
var timePool = []time.Time{
	time.Date(2020, 2, 29, 23, 59, 59, 999999999, time.UTC),
	time.Date(1999, 12, 31, 0, 0, 0, 0, time.FixedZone("x", 3600*5+1800)),
	time.Date(2038, 1, 19, 3, 14, 8, 1, time.UTC),
	time.Date(1, 1, 1, 0, 0, 0, 0, time.UTC),
	time.Date(2024, 6, 1, 12, 0, 0, 500000000, time.FixedZone("y", -3600*8)),
}

func Time(name string) time.Time {
	n := num(name)
	if n < 0 {
		n = -n
	}
	return timePool[int(n%int64(len(timePool)))]
}

var floatPool = []float64{0, 1.5, -2.25, 1e39, 3.4028234663852886e38, 1.401298464324817e-45, 5e-324, 1.7976931348623157e308, 0.1, 123456789.125, -1e-7, 16777217}

func Float64(name string) float64 {
	n := num(name)
	if n < 0 {
		n = -n
	}
	return floatPool[int(n%int64(len(floatPool)))]
}

func Float32(name string) float32 { return float32(Float64(name)) }

// ---------------------------------------------------------------- JSON vocabulary

// JSON is a parsed JSON value (natively: the encoding/json tree with json.Number).
type JSON struct {
	v  interface{}
	ok bool
}

type kv struct {
	k string
	v interface{}
}
type objT []kv

func parseValue(dec *json.Decoder) (interface{}, error) {
	tok, err := dec.Token()
	if err != nil {
		return nil, err
	}
	switch t := tok.(type) {
	case json.Delim:
		switch t {
		case '{':
			var o objT
			for dec.More() {
				kt, err := dec.Token()
				if err != nil {
					return nil, err
				}
				v, err := parseValue(dec)
				if err != nil {
					return nil, err
				}
				o = append(o, kv{kt.(string), v})
			}
			if _, err := dec.Token(); err != nil {
				return nil, err
			}
			if o == nil {
				o = objT{}
			}
			return o, nil
		case '[':
			a := []interface{}{}
			for dec.More() {
				v, err := parseValue(dec)
				if err != nil {
					return nil, err
				}
				a = append(a, v)
			}
			if _, err := dec.Token(); err != nil {
				return nil, err
			}
			return a, nil
		}
	}
	return tok, nil
}

func ParseJSON(bs []byte) (JSON, bool) {
	if !json.Valid(bs) {
		return JSON{}, false
	}
	dec := json.NewDecoder(bytes.NewReader(bs))
	dec.UseNumber()
	v, err := parseValue(dec)
	if err != nil {
		return JSON{}, false
	}
	return JSON{v: v, ok: true}, true
}

// Kind: 0 null, 1 bool, 2 number, 3 string, 4 array, 5 object.
func (j JSON) Kind() int {
	switch j.v.(type) {
	case nil:
		return 0
	case bool:
		return 1
	case json.Number:
		return 2
	case string:
		return 3
	case []interface{}:
		return 4
	case objT:
		return 5
	}
	return -1
}

func (j JSON) IsInt() bool {
	n, ok := j.v.(json.Number)
	if !ok {
		return false
	}
	_, err := n.Int64()
	return err == nil
}

func (j JSON) Len() int {
	switch x := j.v.(type) {
	case []interface{}:
		return len(x)
	case objT:
		return len(x)
	}
	return 0
}

func (j JSON) Index(i int) JSON {
	switch x := j.v.(type) {
	case []interface{}:
		return JSON{v: x[i], ok: true}
	case objT:
		return JSON{v: x[i].v, ok: true}
	}
	return JSON{}
}

func (j JSON) Key(i int) string {
	if x, ok := j.v.(objT); ok {
		return x[i].k
	}
	return ""
}

func (j JSON) Get(k string) (JSON, bool) {
	if x, ok := j.v.(objT); ok {
		for i := len(x) - 1; i >= 0; i-- {
			if x[i].k == k {
				return JSON{v: x[i].v, ok: true}, true
			}
		}
	}
	return JSON{}, false
}

func (j JSON) Str() string { s, _ := j.v.(string); return s }
func (j JSON) Int() int64 {
	if n, ok := j.v.(json.Number); ok {
		i, _ := n.Int64()
		return i
	}
	return 0
}
func (j JSON) Bool() bool { b, _ := j.v.(bool); return b }
func (j JSON) IsFloat32() bool {
	n, ok := j.v.(json.Number)
	if !ok {
		return false
	}
	f, err := n.Float64()
	return err == nil && float64(float32(f)) == f
}

func (j JSON) IsDateTime() bool {
	s, ok := j.v.(string)
	if !ok {
		return false
	}
	_, err := time.Parse(time.RFC3339, s)
	return err == nil
}

func jsonEq(a, b interface{}) bool {
	switch x := a.(type) {
	case nil:
		return b == nil
	case bool:
		y, ok := b.(bool)
		return ok && x == y
	case string:
		y, ok := b.(string)
		return ok && x == y
	case json.Number:
		y, ok := b.(json.Number)
		if !ok {
			return false
		}
		xi, e1 := x.Int64()
		yi, e2 := y.Int64()
		if e1 == nil && e2 == nil {
			return xi == yi
		}
		xf, _ := x.Float64()
		yf, _ := y.Float64()
		return (e1 == nil) == (e2 == nil) && xf == yf
	case []interface{}:
		y, ok := b.([]interface{})
		if !ok || len(x) != len(y) {
			return false
		}
		for i := range x {
			if !jsonEq(x[i], y[i]) {
				return false
			}
		}
		return true
	case objT:
		y, ok := b.(objT)
		if !ok || len(x) != len(y) {
			return false
		}
		used := make([]bool, len(y))
		for _, e := range x {
			found := false
			for j, f := range y {
				if !used[j] && e.k == f.k {
					used[j] = true
					found = true
					if !jsonEq(e.v, f.v) {
						return false
					}
					break
				}
			}
			if !found {
				return false
			}
		}
		return true
	}
	return false
}

func (j JSON) Equal(o JSON) bool { return jsonEq(j.v, o.v) }

// JSONAny: the text of an arbitrary JSON value whose kind the model picks
// (0 null 1 bool 2 integer 3 fraction 4 string 5 empty array 6 empty object).
func JSONAny(name string) string {
	full := key(name)
	counts[full+".kind"], counts[full+".bool"], counts[full+".int"], counts[full+".str"] = 0, 0, 0, 0
	k := num(full + ".kind")
	b := Bool(full + ".bool")
	i := num(full + ".int")
	s := String(full+".str", 6)
	switch k {
	case 0:
		return "null"
	case 1:
		if b {
			return "true"
		}
		return "false"
	case 2:
		return fmt.Sprint(i)
	case 3:
		return fmt.Sprint(i%1000) + ".5"
	case 4:
		return JSONString(s)
	case 5:
		return "[]"
	}
	return "{}"
}

// JSONValue: JSONAny whose kind the model picks inside mask (bit k = kind k).
func JSONValue(name string, mask int, intBits int) string { return JSONAny(name) }

func JSONString(s string) string {
	bs, _ := json.Marshal(s)
	return string(bs)
}

func JSONInt(i int64) string { return fmt.Sprint(i) }

// ---------------------------------------------------------------- Arbitrary / Equal (reflect)

var timeType = reflect.TypeOf(time.Time{})
var rawType = reflect.TypeOf(json.RawMessage{})

func fill(v reflect.Value, name string, depth int) {
	if depth > 6 {
		return
	}
	t := v.Type()
	switch {
	case t == timeType:
		v.Set(reflect.ValueOf(Time(name)))
		return
	case t.ConvertibleTo(timeType) && t.Kind() == reflect.Struct:
		v.Set(reflect.ValueOf(Time(name)).Convert(t))
		return
	case t == rawType:
		v.Set(reflect.ValueOf(json.RawMessage(JSONAny(name))))
		return
	}
	switch t.Kind() {
	case reflect.Bool:
		v.SetBool(Bool(name))
	case reflect.Int, reflect.Int8, reflect.Int16, reflect.Int32, reflect.Int64:
		v.SetInt(num(name))
	case reflect.Uint, reflect.Uint8, reflect.Uint16, reflect.Uint32, reflect.Uint64:
		v.SetUint(uint64(num(name)))
	case reflect.Float32, reflect.Float64:
		v.SetFloat(Float64(name))
		if t.Kind() == reflect.Float32 {
			v.SetFloat(float64(float32(v.Float())))
		}
	case reflect.String:
		v.SetString(String(name, 6))
	case reflect.Struct:
		if t.NumField() == 2 && t.Field(0).Name == "IsSet" && t.Field(1).Name == "Value" {
			if Bool(name + ".IsSet") {
				v.Field(0).SetBool(true)
				fill(v.Field(1), name+".Value", depth+1)
			}
			return
		}
		for i := 0; i < t.NumField(); i++ {
			f := t.Field(i)
			if !f.IsExported() && !f.Anonymous {
				continue
			}
			if !v.Field(i).CanSet() {
				continue
			}
			fill(v.Field(i), name+"."+f.Name, depth+1)
		}
	case reflect.Ptr:
		if Choose(name+".nil", 2) == 1 {
			return
		}
		e := reflect.New(t.Elem())
		fill(e.Elem(), name+".elem", depth+1)
		v.Set(e)
	case reflect.Slice:
		c := Choose(name+".len", 4)
		if c == 0 {
			return
		}
		n := c - 1
		if t.Elem().Kind() == reflect.Uint8 {
			v.SetBytes([]byte(String(name, 6)))
			return
		}
		s := reflect.MakeSlice(t, n, n)
		for i := 0; i < n; i++ {
			fill(s.Index(i), fmt.Sprintf("%s.%d", name, i), depth+1)
		}
		v.Set(s)
	case reflect.Map:
		c := Choose(name+".len", 4)
		if c == 0 {
			return
		}
		m := reflect.MakeMap(t)
		for i := 0; i < c-1; i++ {
			k := reflect.New(t.Key()).Elem()
			k.SetString(String(fmt.Sprintf("%s.k%d", name, i), 4))
			e := reflect.New(t.Elem()).Elem()
			fill(e, fmt.Sprintf("%s.v%d", name, i), depth+1)
			m.SetMapIndex(k, e)
		}
		v.Set(m)
	}
}

// Arbitrary fills *ptr from the replayed model (see the engine's naming scheme).
func Arbitrary(ptr interface{}, name string) {
	load()
	fill(reflect.ValueOf(ptr).Elem(), name, 0)
}

func deepEq(a, b reflect.Value) bool {
	if a.Type() != b.Type() {
		return false
	}
	t := a.Type()
	switch {
	case t == timeType:
		return a.Interface().(time.Time).Equal(b.Interface().(time.Time))
	case t.ConvertibleTo(timeType) && t.Kind() == reflect.Struct:
		return a.Convert(timeType).Interface().(time.Time).Equal(b.Convert(timeType).Interface().(time.Time))
	case t == rawType:
		ja, oka := ParseJSON(a.Bytes())
		jb, okb := ParseJSON(b.Bytes())
		if !oka || !okb {
			return oka == okb && (a.Len() == 0) == (b.Len() == 0)
		}
		return ja.Equal(jb)
	}
	switch t.Kind() {
	case reflect.Struct:
		for i := 0; i < t.NumField(); i++ {
			if !deepEq(a.Field(i), b.Field(i)) {
				return false
			}
		}
		return true
	case reflect.Slice, reflect.Array:
		if a.Len() != b.Len() {
			return false
		}
		for i := 0; i < a.Len(); i++ {
			if !deepEq(a.Index(i), b.Index(i)) {
				return false
			}
		}
		return true
	case reflect.Map:
		if a.Len() != b.Len() {
			return false
		}
		for _, k := range a.MapKeys() {
			bv := b.MapIndex(k)
			if !bv.IsValid() || !deepEq(a.MapIndex(k), bv) {
				return false
			}
		}
		return true
	case reflect.Ptr, reflect.Interface:
		if a.IsNil() || b.IsNil() {
			return a.IsNil() && b.IsNil()
		}
		return deepEq(a.Elem(), b.Elem())
	case reflect.Func:
		return a.IsNil() && b.IsNil()
	case reflect.Bool:
		return a.Bool() == b.Bool()
	case reflect.String:
		return a.String() == b.String()
	case reflect.Float32, reflect.Float64:
		return a.Float() == b.Float()
	case reflect.Int, reflect.Int8, reflect.Int16, reflect.Int32, reflect.Int64:
		return a.Int() == b.Int()
	case reflect.Uint, reflect.Uint8, reflect.Uint16, reflect.Uint32, reflect.Uint64:
		return a.Uint() == b.Uint()
	}
	return reflect.DeepEqual(a.Interface(), b.Interface())
}

// Equal: Go value equality with times compared as instants and nil
// slices/maps identified with empty ones.
func Equal(a, b interface{}) bool {
	if a == nil || b == nil {
		return a == nil && b == nil
	}
	return deepEq(reflect.ValueOf(a), reflect.ValueOf(b))
}

// PermuteSomeMaps: symbolic-only switch - up to n map ranges of the code that
// follows iterate in an arbitrary order (0 switches it off).
func PermuteSomeMaps(n int) {}

// PoolLeftovers: symbolic-only switch - an object taken from a sync.Pool may
// carry state another request left in it (one designated Get per path).
func PoolLeftovers(on bool) {}

// PermuteOneMap: symbolic-only switch - exactly one map range of the code that
// follows iterates in an arbitrary order (which one is part of the schedule).
func PermuteOneMap(on bool) {}

// EqualData: equality of two data graphs of the same type; function values are
// not compared, shared and cyclic parts are visited once.
func EqualData(a, b interface{}) bool {
	if a == nil || b == nil {
		return a == nil && b == nil
	}
	return dataEq(reflect.ValueOf(a), reflect.ValueOf(b), map[[2]uintptr]bool{})
}

func dataEq(a, b reflect.Value, seen map[[2]uintptr]bool) bool {
	if a.Type() != b.Type() {
		return false
	}
	switch a.Kind() {
	case reflect.Func, reflect.Chan, reflect.UnsafePointer:
		return true
	case reflect.Struct:
		for i := 0; i < a.NumField(); i++ {
			if !dataEq(a.Field(i), b.Field(i), seen) {
				return false
			}
		}
		return true
	case reflect.Slice:
		if a.IsNil() != b.IsNil() && (a.Len() != 0 || b.Len() != 0) {
			return false
		}
		fallthrough
	case reflect.Array:
		if a.Len() != b.Len() {
			return false
		}
		for i := 0; i < a.Len(); i++ {
			if !dataEq(a.Index(i), b.Index(i), seen) {
				return false
			}
		}
		return true
	case reflect.Map:
		if a.Len() != b.Len() {
			return false
		}
		for _, k := range a.MapKeys() {
			bv := b.MapIndex(k)
			if !bv.IsValid() || !dataEq(a.MapIndex(k), bv, seen) {
				return false
			}
		}
		return true
	case reflect.Ptr:
		if a.IsNil() || b.IsNil() {
			return a.IsNil() && b.IsNil()
		}
		k := [2]uintptr{a.Pointer(), b.Pointer()}
		if seen[k] {
			return true
		}
		seen[k] = true
		return dataEq(a.Elem(), b.Elem(), seen)
	case reflect.Interface:
		if a.IsNil() || b.IsNil() {
			return a.IsNil() && b.IsNil()
		}
		return dataEq(a.Elem(), b.Elem(), seen)
	case reflect.Bool:
		return a.Bool() == b.Bool()
	case reflect.String:
		return a.String() == b.String()
	case reflect.Float32, reflect.Float64:
		return a.Float() == b.Float()
	case reflect.Int, reflect.Int8, reflect.Int16, reflect.Int32, reflect.Int64:
		return a.Int() == b.Int()
	case reflect.Uint, reflect.Uint8, reflect.Uint16, reflect.Uint32, reflect.Uint64, reflect.Uintptr:
		return a.Uint() == b.Uint()
	}
	return true
}

// Same: structural equality of two values whose types may differ in name only
// (C18: the same API generated from two forms of one spec).
func Same(a, b interface{}) bool {
	if a == nil || b == nil {
		return a == nil && b == nil
	}
	return sameEq(reflect.ValueOf(a), reflect.ValueOf(b))
}

func sameEq(a, b reflect.Value) bool {
	ta, tb := a.Type(), b.Type()
	isTime := func(t reflect.Type) bool { return t.Kind() == reflect.Struct && t.ConvertibleTo(timeType) }
	if isTime(ta) || isTime(tb) {
		if !isTime(ta) || !isTime(tb) {
			return false
		}
		return a.Convert(timeType).Interface().(time.Time).Equal(b.Convert(timeType).Interface().(time.Time))
	}
	if ta == rawType || tb == rawType {
		if ta != tb {
			return false
		}
		return deepEq(a, b)
	}
	if ta.Kind() != tb.Kind() {
		return false
	}
	switch ta.Kind() {
	case reflect.Struct:
		if ta.NumField() != tb.NumField() {
			return false
		}
		for i := 0; i < ta.NumField(); i++ {
			if !sameEq(a.Field(i), b.Field(i)) {
				return false
			}
		}
		return true
	case reflect.Slice, reflect.Array:
		if a.Len() != b.Len() {
			return false
		}
		for i := 0; i < a.Len(); i++ {
			if !sameEq(a.Index(i), b.Index(i)) {
				return false
			}
		}
		return true
	case reflect.Map:
		if a.Len() != b.Len() {
			return false
		}
		for _, k := range a.MapKeys() {
			bv := b.MapIndex(k.Convert(tb.Key()))
			if !bv.IsValid() || !sameEq(a.MapIndex(k), bv) {
				return false
			}
		}
		return true
	case reflect.Ptr, reflect.Interface:
		if a.IsNil() || b.IsNil() {
			return a.IsNil() && b.IsNil()
		}
		return sameEq(a.Elem(), b.Elem())
	case reflect.Func:
		return a.IsNil() && b.IsNil()
	case reflect.Bool:
		return a.Bool() == b.Bool()
	case reflect.String:
		return a.String() == b.String()
	case reflect.Float32, reflect.Float64:
		return a.Float() == b.Float()
	case reflect.Int, reflect.Int8, reflect.Int16, reflect.Int32, reflect.Int64:
		return a.Int() == b.Int()
	case reflect.Uint, reflect.Uint8, reflect.Uint16, reflect.Uint32, reflect.Uint64:
		return a.Uint() == b.Uint()
	}
	return false
}

// ---------------------------------------------------------------- file-system vocabulary (C19, C01)

var fsDirs = map[int]string{}
var fsCur int

// FSSelect switches between independent scratch directories.
func FSSelect(k int) {
	fsCur = k
	if _, ok := fsDirs[k]; !ok {
		d, err := os.MkdirTemp("", "vrt-fs-")
		if err != nil {
			panic(err)
		}
		fsDirs[k] = d
	}
}

func FSDir() string {
	if _, ok := fsDirs[fsCur]; !ok {
		FSSelect(fsCur)
	}
	return fsDirs[fsCur]
}

func FSSet(name string, exists bool, content string) {
	p := filepath.Join(FSDir(), name)
	if exists {
		os.WriteFile(p, []byte(content), 0o644)
	} else {
		os.Remove(p)
	}
}

func FSExists(name string) bool {
	_, err := os.Stat(filepath.Join(FSDir(), name))
	return err == nil
}

func FSContent(name string) string {
	bs, _ := os.ReadFile(filepath.Join(FSDir(), name))
	return string(bs)
}

// Blob: a long file content (1 MiB natively; longer than any file goag renders
// for the specs the harnesses use).
func Blob(name string) string { return strings.Repeat("x", 1<<20) }

func FSCleanup() {
	for _, d := range fsDirs {
		os.RemoveAll(d)
	}
	fsDirs = map[int]string{}
}

// SetRenderFailure(k): the k-th file rendered by the stubbed pipeline fails (0: none).
func SetRenderFailure(k int) {}

// Observed: a value the symbolic stubs recorded (natively unavailable: "").
func Observed(name string) string { return "" }

// SetHasComponents / SetRenderParses steer the symbolic stubs; natively the
// harness picks real inputs with the same meaning.
func SetHasComponents(b bool) {}
func SetRenderParses(b bool)  {}

// IsFormatted: is s gofmt-stable Go source?
func IsFormatted(s string) bool {
	out, err := format.Source([]byte(s))
	return err == nil && string(out) == s
}
